/-
Go's UTF-8 decoding (`unicode/utf8.DecodeRune`, which is also what `range string` and
`utf8.RuneCount` do) and encoding (`utf8.AppendRune` as used by `bytes.Buffer.WriteRune`),
over lists of byte values.  Invalid input yields (U+FFFD, 1), exactly as the Go runtime.
-/
namespace QRV.Model.Utf8

def runeError : Nat := 0xFFFD

/-- `(rune, size)` of the first character of a non-empty byte list -/
def decodeRune : List Nat → Nat × Nat
  | [] => (runeError, 0)
  | p0 :: rest =>
    if p0 < 0x80 then (p0, 1)
    else if p0 < 0xC2 then (runeError, 1)
    else if p0 < 0xE0 then
      match rest with
      | b1 :: _ => if 0x80 ≤ b1 ∧ b1 ≤ 0xBF then (((p0 &&& 0x1F) <<< 6) ||| (b1 &&& 0x3F), 2) else (runeError, 1)
      | _ => (runeError, 1)
    else if p0 < 0xF0 then
      let lo := if p0 = 0xE0 then 0xA0 else 0x80
      let hi := if p0 = 0xED then 0x9F else 0xBF
      match rest with
      | b1 :: b2 :: _ =>
        if lo ≤ b1 ∧ b1 ≤ hi then
          if 0x80 ≤ b2 ∧ b2 ≤ 0xBF then
            (((p0 &&& 0x0F) <<< 12) ||| ((b1 &&& 0x3F) <<< 6) ||| (b2 &&& 0x3F), 3)
          else (runeError, 1)
        else (runeError, 1)
      | _ => (runeError, 1)
    else if p0 < 0xF5 then
      let lo := if p0 = 0xF0 then 0x90 else 0x80
      let hi := if p0 = 0xF4 then 0x8F else 0xBF
      match rest with
      | b1 :: b2 :: b3 :: _ =>
        if lo ≤ b1 ∧ b1 ≤ hi then
          if 0x80 ≤ b2 ∧ b2 ≤ 0xBF then
            if 0x80 ≤ b3 ∧ b3 ≤ 0xBF then
              (((p0 &&& 0x07) <<< 18) ||| ((b1 &&& 0x3F) <<< 12) ||| ((b2 &&& 0x3F) <<< 6) ||| (b3 &&& 0x3F), 4)
            else (runeError, 1)
          else (runeError, 1)
        else (runeError, 1)
      | _ => (runeError, 1)
    else (runeError, 1)

/-- the runes of a byte string, as `for _, r := range string(data)` visits them
(fuel = number of bytes: every step consumes at least one) -/
def runesFuel : Nat → List Nat → List Nat
  | 0, _ => []
  | _, [] => []
  | f + 1, l@(_ :: _) =>
    let rs := decodeRune l
    rs.1 :: runesFuel f (l.drop rs.2)

def runes (l : List Nat) : List Nat := runesFuel l.length l

/-- Go: `utf8.RuneCount` -/
def runeCount (l : List Nat) : Nat := (runes l).length

/-- Go: `utf8.AppendRune` for a rune below 0x110000 (surrogates become U+FFFD) -/
def encodeRune (r : Nat) : List Nat :=
  if r < 0x80 then [r]
  else if r < 0x800 then [0xC0 ||| (r >>> 6), 0x80 ||| (r &&& 0x3F)]
  else if (0xD800 ≤ r ∧ r ≤ 0xDFFF) ∨ r > 0x10FFFF then [0xEF, 0xBF, 0xBD]
  else if r < 0x10000 then [0xE0 ||| (r >>> 12), 0x80 ||| ((r >>> 6) &&& 0x3F), 0x80 ||| (r &&& 0x3F)]
  else [0xF0 ||| (r >>> 18), 0x80 ||| ((r >>> 12) &&& 0x3F), 0x80 ||| ((r >>> 6) &&& 0x3F), 0x80 ||| (r &&& 0x3F)]

end QRV.Model.Utf8
