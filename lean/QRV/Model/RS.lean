import QRV.Model.GF
import QRV.Gen.RS
/-
Model of /repo/internal/reedsolomon: the 67 generated coders (as data: `Gen.RS.taps`, extracted by
the translator after matching every coder against the generator's template), `New`, and the
Euclidean decoder `Decode` with /repo/internal/reedsolomon/poly.
-/
namespace QRV.Model.RS
open QRV QRV.Model.GF

/-- taps of coder n ([] when there is none) -/
def tapsOf (n : Nat) : List Nat := Gen.RS.taps[n]?.getD []

/-- one iteration of `for _, b := range p` in `coderN.Write` -/
def step (taps : List Nat) (c : List Nat) (b : Nat) : List Nat :=
  match c with
  | [] => []
  | c0 :: rest =>
    if c0 = 0 then rest ++ [b]
    else
      let x := logT c0
      List.zipWith (fun nxt k => addMulExpN nxt x k) (rest ++ [b]) taps

/-- Go: `Write(p)` -/
def write (taps : List Nat) (c : List Nat) (p : List Nat) : List Nat := p.foldl (step taps) c

/-- Go: `Sum(buf)` for a coder of size n with `cap(buf) ≥ n` or not: value receiver, so the running
state is untouched; returns the n parity bytes (the library always passes an empty `buf`). -/
def sum (taps : List Nat) (c : List Nat) (buf : List Nat) : List Nat :=
  let c1 := write taps c buf
  write taps c1 (List.replicate c.length 0)

/-- Go: `reedsolomon.New(n)`: the initial (all-zero) state, or a panic -/
def new (n : Int) : Out (List Nat × List Nat) :=
  if n < 2 then .panic "negative"
  else if n ≥ Gen.RS.codersLen then .panic "too large"
  else
    let t := tapsOf n.toNat
    .ok (t, List.replicate n.toNat 0)

/-- parity of a message with an n-parity coder, as the symbol builders compute it:
`rs := New(n); rs.Write(data); rs.Sum(make([]byte, 0, n))` -/
def parity (n : Nat) (data : List Nat) : Out (List Nat) := do
  let (t, c) ← new n
  pure (sum t (write t c data) [])

/-! ### poly.go (big-endian coefficient lists) -/
namespace Poly

abbrev Poly := List Nat

def eval (p : Poly) (x : Nat) : Nat := p.foldl (fun ret b => add (mul ret x) b) 0

/-- Go: `Degree` (0 for the zero polynomial) -/
def degree : Poly → Nat
  | [] => 0
  | e :: rest => if e ≠ 0 then rest.length else degree rest

/-- Go: `Coefficient(degree)` for `degree ≥ 0` -/
def coefficient (p : Poly) (d : Nat) : Nat :=
  if d ≥ p.length then 0 else p[p.length - d - 1]?.getD 0

def newMonomial (deg : Nat) (c : Nat) : Poly := c :: List.replicate deg 0

/-- Go: `p.Add(q)`: result has length max(len p, len q) -/
def padd (p q : Poly) : Poly :=
  let n := max p.length q.length
  let p' := List.replicate (n - p.length) 0 ++ p
  let q' := List.replicate (n - q.length) 0 ++ q
  List.zipWith add p' q'

/-- Go: `p.Mul(q)`; `make` with a negative length panics -/
def pmul (p q : Poly) : Out Poly :=
  if p.length + q.length = 0 then .panic "makeslice: len out of range"
  else
    let n := p.length + q.length - 1
    let init : Array Nat := Array.replicate n 0
    let r := (List.range p.length).foldl (init := init) fun acc i =>
      (List.range q.length).foldl (init := acc) fun acc j =>
        acc.modify (i + j) (fun v => add v (mul (p[i]?.getD 0) (q[j]?.getD 0)))
    .ok r.toList

/-- Go: `MulMonomial(degree, coefficient)` -/
def mulMonomial (p : Poly) (deg : Nat) (c : Nat) : Poly :=
  if c = 0 then [] else p.map (fun e => mul e c) ++ List.replicate deg 0

def mulElement (p : Poly) (v : Nat) : Poly := p.map (fun e => mul e v)

/-- the inner division loop `for r.Degree() >= rLast.Degree()` -/
def divLoop (rLast : Poly) (dltInv : Nat) : (fuel : Nat) → (q r : Poly) → Out (Poly × Poly)
  | 0, _, _ => .panic "model: division fuel exhausted (non-termination)"
  | fuel + 1, q, r =>
    if degree r ≥ degree rLast then
      let degreeDiff := degree r - degree rLast
      let scale := mul (coefficient r (degree r)) dltInv
      let q := padd q (newMonomial degreeDiff scale)
      let r := padd r (mulMonomial rLast degreeDiff scale)
      divLoop rLast dltInv fuel q r
    else .ok (q, r)

/-- the outer loop `for 2*r.Degree() >= R` -/
def euclidLoop (R : Nat) : (fuel : Nat) → (rLast r tLast t : Poly) → Out (Poly × Poly)
  | 0, _, _, _, _ => .panic "model: euclid fuel exhausted (non-termination)"
  | fuel + 1, rLast, r, tLast, t =>
    if 2 * degree r ≥ R then do
      -- r, rLast = rLast, r ; t, tLast = tLast, t
      let (r, rLast) := (rLast, r)
      let (t, tLast) := (tLast, t)
      let dlt := coefficient rLast (degree rLast)
      let dltInv ← inv dlt
      let (q, r) ← divLoop rLast dltInv (r.length + rLast.length + 2) [] r
      let qt ← pmul q tLast
      let t := padd qt t
      euclidLoop R fuel rLast r tLast t
    else .ok (t, r)

/-- Go: `EuclideanAlgorithm(a, b, R)`; `err` is "sigmaTilde(0) was zero" -/
def euclideanAlgorithm (a b : Poly) (R : Nat) : Out (Poly × Poly) := do
  let (a, b) := if degree a < degree b then (b, a) else (a, b)
  let (t, r) ← euclidLoop R (a.length + b.length + 2) a b [] [1]
  let s0 := coefficient t 0
  if s0 = 0 then .err "sigmaTilde(0) was zero"
  else do
    let iv ← inv s0
    pure (mulElement t iv, mulElement r iv)

end Poly

open Poly in
/-- Go: `findErrorLocations` -/
def findErrorLocations (sigma : Poly) : Out (List Nat) :=
  (List.range 255).foldlM (init := []) fun acc k =>
    let e := k + 1
    if eval sigma e = 0 then do
      let iv ← inv e
      pure (acc ++ [iv])
    else pure acc

open Poly in
/-- Go: `findErrorMagnitudes` -/
def findErrorMagnitudes (omega : Poly) (locs : List Nat) : Out (List Nat) :=
  (List.range locs.length).foldlM (init := []) fun acc i => do
    let loc1 := locs[i]?.getD 0
    let xiInverse ← inv loc1
    let denominator := (List.range locs.length).foldl (init := 1) fun den j =>
      if i ≠ j then mul den (add (mul (locs[j]?.getD 0) xiInverse) 1) else den
    let dinv ← inv denominator
    pure (acc ++ [mul (eval omega xiInverse) dinv])

open Poly in
/-- Go: `Decode(data, twoS)`: the corrected buffer, or an error, or a panic -/
def decode (data : List Nat) (twoS : Int) : Out (List Nat) :=
  if twoS < 0 then .panic "makeslice: len out of range"
  else
    let n := twoS.toNat
    -- syndrome[len-1-i] = p.Eval(Exp(i))
    let synd := ((List.range n).map fun i => eval data (expT (i % 255))).reverse
    if synd.all (· == 0) then .ok data
    else do
      let (sigma, omega) ← euclideanAlgorithm (newMonomial n 1) synd n
      let locs ← findErrorLocations sigma
      if locs.length ≠ degree sigma then
        throwErr (α := Unit) "reedsolomon: error locator degree does not match number of roots"
      let mags ← findErrorMagnitudes omega locs
      let mut d := data.toArray
      for i in [0:locs.length] do
        let l ← log (locs[i]?.getD 0)
        if d.size < 1 + l then
          throwErr "reedsolomon: bad location"
        else
          let pos := d.size - 1 - l
          d := d.modify pos (fun v => add v (mags[i]?.getD 0))
      -- verify the result: a corrected word must be a codeword
      let res := d.toList
      if (List.range n).all (fun i => eval res (expT (i % 255)) == 0) then pure res
      else throwErr "reedsolomon: too many errors"
where
  throwErr {α} (m : String) : Out α := .err m

end QRV.Model.RS
