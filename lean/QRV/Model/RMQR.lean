import QRV.Model.Sym
import QRV.Model.New
import QRV.Gen.RMQR
/-
Model of /repo/rmqr/encode.go, decode.go, rmqr.go (package rmqr), function for function, over the
regenerated tables `Gen.RMQR.*`.  rMQR has no mask field: `QRCode.mask` is unused (0).
-/
namespace QRV.Model.RMQR
open QRV QRV.Model.Bits QRV.Model.Bitmap QRV.Model.Sym QRV.Model.Codec

def modeNumeric : Nat := 1
def modeAlphanumeric : Nat := 2
def modeBytes : Nat := 3
def modeKanji : Nat := 4
def modeTerminated : Nat := 0

def baseList : Array (Option Image) := ofGenList Gen.RMQR.baseList
def usedList : Array (Option Image) := ofGenList Gen.RMQR.usedList
def precomputedMask : Image := Image.ofGen Gen.RMQR.precomputedMask

def versionIsValid (v : Int) : Bool := Gen.RMQR.c_minVersion ≤ v && v < Gen.RMQR.c_maxVersion
def levelIsValid (l : Int) : Bool := 0 ≤ l && l < Gen.RMQR.c_levelMax

/-- the pinned source bounds and prices a kanji segment by its BYTE length; a repaired source
counts characters -/
def KANJI_COUNTS_BYTES : Bool := false

/-- Go: `(*Segment).length(version, level) (int, bool)` -/
def segLength (s : Segment) (version level : Int) : Out (Option Nat) :=
  match Gen.RMQR.capacityTable[version.toNat]? with
  | none => .ok none
  | some row =>
    if version < 0 then .panic "index out of range"
    else match row[level.toNat]? with
    | none => .ok none
    | some cap =>
      if level < 0 then .panic "index out of range"
      else
        let len := s.data.length
        let bl (m : Nat) : Nat := cap.bitLength[m]?.getD 0
        if s.mode = modeNumeric then
          let n := bl modeNumeric
          if len ≥ 2 ^ n then .ok none
          else .ok (some (3 + (n + (if len % 3 = 1 then 4 else if len % 3 = 2 then 7 else 0)) + 10 * (len / 3)))
        else if s.mode = modeAlphanumeric then
          let n := bl modeAlphanumeric
          if len ≥ 2 ^ n then .ok none
          else .ok (some (3 + n + (11 * (len / 2) + (if len % 2 ≠ 0 then 6 else 0))))
        else if s.mode = modeBytes then
          let n := bl modeBytes
          if len ≥ 2 ^ n then .ok none else .ok (some (3 + n + len * 8))
        else if s.mode = modeKanji then
          let n := bl modeKanji
          let cnt := if KANJI_COUNTS_BYTES then len else Utf8.runeCount s.data
          if cnt ≥ 2 ^ n then .ok none else .ok (some (3 + n + cnt * 13))
        else .ok none

/-- Go: `(*Segment).encode(bitLength, buf)` -/
def segEncode (s : Segment) (bitLength : List Nat) (buf : Buffer) : Out Buffer :=
  if s.mode = modeNumeric ∨ s.mode = modeAlphanumeric ∨ s.mode = modeBytes ∨ s.mode = modeKanji then
    let n := bitLength[s.mode]?.getD 0
    let bound := if s.mode = modeKanji ∧ !KANJI_COUNTS_BYTES then Utf8.runeCount s.data else s.data.length
    if bound ≥ 2 ^ n then .err "rmqr: data is too long"
    else do
      let count := if s.mode = modeKanji then Utf8.runeCount s.data else s.data.length
      let buf ← writeBitsLSB buf s.mode 3
      let buf ← writeBitsLSB buf count n
      if s.mode = modeNumeric then encodeNumeric buf s.data
      else if s.mode = modeAlphanumeric then encodeAlphanumeric buf s.data
      else if s.mode = modeBytes then encodeBytes buf s.data
      else encodeKanji buf s.data
  else .err "qrcode: unknown mode"

/-- Go: `encodeSegments` -/
def encodeSegments (qr : QRCode) (buf : Buffer) : Out Buffer := do
  let cap ← capAt Gen.RMQR.capacityTable qr.version qr.level
  let mut buf := buf
  for s in qr.segments do
    buf ← segEncode s cap.bitLength buf
  let l := buf.len
  if l > cap.data * 8 then Out.err (α := Unit) "qrcode: data is too large"
  if cap.data * 8 - l > 3 then
    buf ← writeBitsLSB buf modeTerminated 3
  if buf.len % 8 ≠ 0 then
    buf ← writeBitsLSB buf 0 (8 - buf.len % 8 : Nat)
  let npad := (cap.data * 8 - buf.len + 7) / 8
  for i in [0:npad] do
    if buf.len < cap.data * 8 then
      buf ← writeBitsLSB buf (if i % 2 = 0 then 0b11101100 else 0b00010001) 8
  pure buf

/-- Go: `encodeToBits` -/
def encodeToBits (qr : QRCode) (ret : Buffer) : Out Buffer := do
  let buf ← encodeSegments qr {}
  let cap ← capAt Gen.RMQR.capacityTable qr.version qr.level
  let blocks ← splitBlocks cap.blocks buf.buf.toList
  interleave blocks ret

/-- the placement loop of `EncodeToBitmap` -/
def placeLoop (used : Image) (h : Int) : (fuel : Nat) → Walk → Buffer → Image → Out Image
  | 0, _, _, _ => .panic "model: placement fuel exhausted (non-termination)"
  | fuel + 1, s, buf, img => do
    let u1 ← used.binaryAt s.x s.y
    let (buf, img, stop) ← (if !u1 then
        match readBit buf with
        | (_, none) => pure (buf, img, true)
        | (b', some bit) => do
          let img ← img.setBinary s.x s.y (bit != 0)
          pure (b', img, false)
      else pure (buf, img, false) : Out (Buffer × Image × Bool))
    if stop then pure img
    else
      let x := s.x - 1
      if x < 1 then pure img
      else do
        let u2 ← used.binaryAt x s.y
        let (buf, img, stop) ← (if !u2 then
            match readBit buf with
            | (_, none) => pure (buf, img, true)
            | (b', some bit) => do
              let img ← img.setBinary x s.y (bit != 0)
              pure (b', img, false)
          else pure (buf, img, false) : Out (Buffer × Image × Bool))
        if stop then pure img
        else
          let x := x + 1
          let y := s.y + s.dy
          let (x, y, dy) := if y < 1 ∨ y > h - 1 then (x - 2, y + (-s.dy), -s.dy) else (x, y, s.dy)
          if x < 1 then pure img
          else placeLoop used h fuel { x, y, dy } buf img

def fmtMask1 : Nat := 0b011111101010110010
def fmtMask2 : Nat := 0b100000101001111011

/-- Go: `EncodeToBitmap` -/
def encodeToBitmap (qr : QRCode) : Out Image := do
  if !versionIsValid qr.version then Out.err (α := Unit) "qrcode: invalid version"
  if !levelIsValid qr.level then Out.err (α := Unit) "qrcode: invalid level"
  let buf ← encodeToBits qr {}
  let usedO ← imgAt usedList qr.version
  let img ← deref (← imgAt baseList qr.version)
  let used ← deref usedO
  let w := img.dx - 1
  let h := img.dy - 1
  let img ← placeLoop used h ((w + 3) * (h + 3)).toNat { x := w - 1, y := h - 5, dy := -1 } buf img
  -- `uint(qr.Version)|uint(qr.Level)<<5`
  let ef ← natAt Gen.RMQR.encodedVersion (qr.version + qr.level * 32)
  let mut img := img
  for i in [0:18] do
    img ← img.setBinary (8 + ((i / 5 : Nat) : Int)) (1 + ((i % 5 : Nat) : Int)) (((ef ^^^ fmtMask1) >>> i) &&& 1 != 0)
  for i in [0:15] do
    img ← img.setBinary (w - 7 + ((i / 5 : Nat) : Int)) (h - 5 + ((i % 5 : Nat) : Int)) (((ef ^^^ fmtMask2) >>> i) &&& 1 != 0)
  img ← img.setBinary (w - 4) (h - 5) (((ef ^^^ fmtMask2) >>> 15) &&& 1 != 0)
  img ← img.setBinary (w - 3) (h - 5) (((ef ^^^ fmtMask2) >>> 16) &&& 1 != 0)
  img ← img.setBinary (w - 2) (h - 5) (((ef ^^^ fmtMask2) >>> 17) &&& 1 != 0)
  Image.mask img used precomputedMask

/-- Go: `decodeFormat0` -/
def decodeFormat0 (data : Nat) : Option (Int × Int) :=
  let pc (n : Nat) : Nat := (List.range 64).foldl (fun c i => c + ((n >>> i) &&& 1)) 0
  let tbl := Gen.RMQR.encodedVersion
  let init := (0, pc ((tbl[0]?.getD 0) ^^^ data))
  let (idx, mn) := (List.range tbl.length).foldl (init := init) fun (idx, mn) i =>
    let c := pc ((tbl[i]?.getD 0) ^^^ data)
    if c < mn then (i, c) else (idx, mn)
  if mn ≥ 3 then none else some (((idx &&& 0x1f : Nat) : Int), (((idx >>> 5) &&& 1 : Nat) : Int))

/-- Go: `decodeFormat` -/
def decodeFormat (img : Image) : Out (Int × Int) := do
  let w := img.dx - 1
  let h := img.dy - 1
  let mut raw : Nat := 0
  for i in [0:18] do
    if (← img.binaryAt (8 + ((i / 5 : Nat) : Int)) (1 + ((i % 5 : Nat) : Int))) then raw := raw ||| (1 <<< i)
  match decodeFormat0 (raw ^^^ fmtMask1) with
  | some r => pure r
  | none =>
    let mut raw2 : Nat := 0
    for i in [0:15] do
      if (← img.binaryAt (w - 7 + ((i / 5 : Nat) : Int)) (h - 5 + ((i % 5 : Nat) : Int))) then raw2 := raw2 ||| (1 <<< i)
    if (← img.binaryAt (w - 4) (h - 5)) then raw2 := raw2 ||| (1 <<< 15)
    if (← img.binaryAt (w - 3) (h - 5)) then raw2 := raw2 ||| (1 <<< 16)
    if (← img.binaryAt (w - 2) (h - 5)) then raw2 := raw2 ||| (1 <<< 17)
    match decodeFormat0 (raw2 ^^^ fmtMask2) with
    | some r => pure r
    | none => .err "rmqr: rMRQ not found"

/-- the reading loop of `DecodeBitmap` -/
def readLoop (used img : Image) (h : Int) : (fuel : Nat) → Walk → Buffer → Out Buffer
  | 0, _, _ => .panic "model: reading fuel exhausted (non-termination)"
  | fuel + 1, s, buf => do
    let u1 ← used.binaryAt s.x s.y
    let buf ← (if !u1 then do
        let c ← img.binaryAt s.x s.y
        writeBit buf (if c then 1 else 0)
      else pure buf : Out Buffer)
    let x := s.x - 1
    if x < 1 then pure buf
    else do
      let u2 ← used.binaryAt x s.y
      let buf ← (if !u2 then do
          let c ← img.binaryAt x s.y
          writeBit buf (if c then 1 else 0)
        else pure buf : Out Buffer)
      let x := x + 1
      let y := s.y + s.dy
      let (x, y, dy) := if y < 1 ∨ y > h - 1 then (x - 2, y + (-s.dy), -s.dy) else (x, y, s.dy)
      if x < 1 then pure buf
      else readLoop used img h fuel { x, y, dy } buf

/-- Go: `decodeNumber/Alphanumeric/Bytes/Kanji(bitLength, buf)` -/
def decodeSegment (mode : Nat) (bitLength : List Nat) (buf : Buffer) : Out (Buffer × Segment) := do
  let (buf, length) ← rd buf (bitLength[mode]?.getD 0)
  let (buf, data) ← (if mode = modeNumeric then decodeNumeric buf length
    else if mode = modeAlphanumeric then decodeAlphanumeric buf length
    else if mode = modeBytes then decodeBytes buf length
    else decodeKanji buf length)
  pure (buf, { mode, data })

def segmentLoop (bitLength : List Nat) : (fuel : Nat) → Buffer → Array Segment → Out (List Segment)
  | 0, _, _ => .panic "model: segment loop fuel exhausted (non-termination)"
  | fuel + 1, buf, acc => do
    let (buf, r) ← readBits buf 3
    match r with
    | none => pure acc.toList
    | some mode =>
      if mode = modeNumeric ∨ mode = modeAlphanumeric ∨ mode = modeBytes ∨ mode = modeKanji then do
        let (buf, seg) ← decodeSegment mode bitLength buf
        segmentLoop bitLength fuel buf (acc.push seg)
      else if mode = modeTerminated then pure acc.toList
      else .err "rmqr: unknown mode"

/-- how many syndromes the decoder asks for: the block's parity length -/
def RS_SYNDROMES (parity : Nat) : Int := parity

/-- whether the decoder unmasks a private copy (repaired source) or the caller's pixels (pinned source) -/
def DECODE_CLONES : Bool := true

/-- Go: `image.Rectangle.Eq` on (w, h) rectangles at the origin -/
def sameBounds (a b : Image) : Bool := a.rectEq b

/-- Go: `DecodeBitmap`; also returns the caller's bitmap as it is after the call -/
def decodeBitmapFull (img0 : Image) : Out (QRCode × Image) := do
  let img : Image := { img0 with minX := 0, minY := 0, maxX := img0.dx, maxY := img0.dy }
  let w := img.dx - 1
  let h := img.dy - 1
  let (version, level) ← decodeFormat img
  let usedO ← imgAt usedList version
  let used ← deref usedO
  if !sameBounds img used then Out.err (α := Unit) "rmqr: image size does not match version"
  let binimg ← Image.mask img used precomputedMask
  let buf ← readLoop used binimg h ((w + 3) * (h + 3)).toNat { x := w - 1, y := h - 5, dy := -1 } {}
  let cap ← capAt Gen.RMQR.capacityTable version level
  let blocks ← deinterleave cap.blocks cap.data cap.total buf.buf.toList
  let mut result : Array Nat := #[]
  for blk in blocks do
    let data := blk.1 ++ blk.2
    let data ← RS.decode data (RS_SYNDROMES blk.2.length)
    result := result ++ (data.take blk.1.length).toArray
  if result.size < cap.data then Out.panic (α := Unit) "slice bounds out of range"
  let stream : Buffer := { buf := result.extract 0 cap.data }
  let segments ← segmentLoop cap.bitLength (cap.data * 8 + 8) stream #[]
  pure ({ version, level, mask := 0, segments }, if DECODE_CLONES then img0 else { img0 with pix := binimg.pix })

def decodeBitmap (img : Image) : Out QRCode := do
  let (q, _) ← decodeBitmapFull img
  pure q

/-- Go: `calcVersion(level, priority, segments) (Version, bool)`; `none` = not ok -/
def calcVersion (level priority : Int) (segments : List Segment) : Out (Option Int) := do
  if !levelIsValid level then return none
  let order ← (if priority = Gen.RMQR.c_priorityArea then pure Gen.RMQR.orderArea
    else if priority = Gen.RMQR.c_priorityHeight then pure Gen.RMQR.orderHeight
    else if priority = Gen.RMQR.c_priorityWidth then pure Gen.RMQR.orderWidth
    else pure [] : Out (List Int))
  if !(priority = Gen.RMQR.c_priorityArea ∨ priority = Gen.RMQR.c_priorityHeight ∨ priority = Gen.RMQR.c_priorityWidth) then
    return none
  for version in order do
    let cap ← capAt Gen.RMQR.capacityTable version level
    let capacity := cap.data * 8
    let mut length := 0
    let mut over := false
    for s in segments do
      if !over then
        match (← segLength s version level) with
        | none => over := true
        | some l =>
          length := length + l
          if length > capacity then over := true
    if !over ∧ length ≤ capacity then return some version
  return none

/-- the repaired source asks `calcVersion` for the smallest symbol of the requested priority when the payload is
empty; the pinned source returned R7x43 whatever the priority (R11x27 is narrower and smaller in area) -/
def NEW_EMPTY_USES_PRIORITY : Bool := true

/-- Go: `New(data, opts...)` reduced to level, priority and the kanji switch -/
def new (level priority : Int) (kanji : Bool) (data : List Nat) : Out QRCode := do
  if !levelIsValid level then Out.err (α := Unit) "qrcode: invalid level"
  if data.isEmpty then
    if NEW_EMPTY_USES_PRIORITY then
      match (← calcVersion level priority []) with
      | none => Out.err (α := Unit) "qrcode: data too large"
      | some version => return { version, level, mask := 0, segments := [] }
    else return { version := 0, level, mask := 0, segments := [] }
  let segments ← (if kanji then New.newKanjiSegs [0, modeNumeric, modeAlphanumeric, modeBytes, modeKanji] data.toArray
    else pure (New.newQRSegs ((3 + 9) * 6) ((3 + 8) * 6) ((3 + 8) * 6) [0, modeNumeric, modeAlphanumeric, modeBytes] data.toArray))
  match (← calcVersion level priority segments) with
  | none => .err "rmqr: data too large"
  | some version => pure { version, level, mask := 0, segments }

end QRV.Model.RMQR
