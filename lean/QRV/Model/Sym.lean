import QRV.Model.Bitmap
import QRV.Model.Codec
import QRV.Model.RS
/-
Pieces shared by the three symbol models (each package of /repo has its own copy of this code;
where the copies differ the difference is a parameter here).
-/
namespace QRV.Model.Sym
open QRV QRV.Model.Bits QRV.Model.Bitmap

structure Segment where
  mode : Nat
  data : List Nat
deriving Repr, DecidableEq, Inhabited

structure QRCode where
  version : Int
  level : Int
  mask : Int
  segments : List Segment
deriving Repr, DecidableEq, Inhabited

/-- state of the zig-zag walk shared by the encoders and decoders -/
structure Walk where
  x : Int
  y : Int
  dy : Int

/-- `capacityTable[v][l]` with Go's index checks on both dimensions -/
def capAt (tbl : List (List Gen.GCap)) (v l : Int) : Out Gen.GCap :=
  if v < 0 ∨ l < 0 then .panic "index out of range"
  else match tbl[v.toNat]? with
    | none => .panic "index out of range"
    | some row => match row[l.toNat]? with
      | none => .panic "index out of range"
      | some c => .ok c

/-- `list[i]` on a slice of `*bitmap.Image`; a nil entry is returned as `none` -/
def imgAt (l : Array (Option Image)) (i : Int) : Out (Option Image) :=
  if i < 0 then .panic "index out of range"
  else match l[i.toNat]? with
    | none => .panic "index out of range"
    | some e => .ok e

/-- dereferencing a possibly nil `*bitmap.Image` -/
def deref (o : Option Image) : Out Image :=
  match o with
  | none => .panic "nil pointer dereference"
  | some i => .ok i

/-- generated image list → array of optional images (nil for the dummy entries) -/
def ofGenList (l : List Gen.GBmp) : Array (Option Image) :=
  (l.map fun g => if g.pixLen = 0 ∧ g.rows.isEmpty then none else some (Image.ofGen g)).toArray

/-- `uintList[i]` -/
def natAt (l : List Nat) (i : Int) : Out Nat :=
  if i < 0 then .panic "index out of range"
  else match l[i.toNat]? with
    | none => .panic "index out of range"
    | some v => .ok v

/-- split data into blocks and compute the correction codewords (the loop of `encodeToBits`) -/
def splitBlocks (blocks : List Gen.GBlock) (data : List Nat) : Out (List (List Nat × List Nat)) := do
  let mut out : Array (List Nat × List Nat) := #[]
  let mut rest := data
  for bc in blocks do
    for _ in [0:bc.num] do
      let n : Int := (bc.total : Int) - (bc.data : Int)
      let (t, c) ← RS.new n
      if rest.length < bc.data then
        Out.panic (α := Unit) "slice bounds out of range"
      let d := rest.take bc.data
      let corr := RS.sum t (RS.write t c d) []
      out := out.push (d, corr)
      rest := rest.drop bc.data
  pure out.toList

/-- the two interleaving loops of `encodeToBits`, appending to `ret` -/
def interleave (blocks : List (List Nat × List Nat)) (ret : Buffer) : Out Buffer := do
  let mut buf := ret
  let maxD := blocks.foldl (fun m b => max m b.1.length) 0
  let maxC := blocks.foldl (fun m b => max m b.2.length) 0
  for i in [0:maxD] do
    for b in blocks do
      match b.1[i]? with
      | some v => buf ← writeBitsLSB buf v 8
      | none => pure ()
  for i in [0:maxC] do
    for b in blocks do
      match b.2[i]? with
      | some v => buf ← writeBitsLSB buf v 8
      | none => pure ()
  pure buf

/-- Go: `decodeFromBits`: allocate the blocks, then deal the bytes round-robin, skipping blocks
that are already full.  `dataLen`/`totalLen` are `capacity.Data`/`capacity.Total`. -/
def deinterleave (blocks : List Gen.GBlock) (dataLen totalLen : Nat) (buf : List Nat) :
    Out (List (List Nat × List Nat)) := do
  let sizes : List (Nat × Nat) := blocks.flatMap fun bc => List.replicate bc.num (bc.data, bc.total - bc.data)
  let nb := sizes.length
  if buf.length < dataLen then Out.panic (α := Unit) "slice bounds out of range"
  if buf.length < totalLen ∨ totalLen < dataLen then Out.panic (α := Unit) "slice bounds out of range"
  let deal (bytes : List Nat) (sel : Nat × Nat → Nat) : Out (Array (Array Nat)) := do
    let mut arrs : Array (Array Nat) := (sizes.map fun s => Array.replicate (sel s) 0).toArray
    let mut i := 0
    for b in bytes do
      if nb = 0 then Out.panic (α := Unit) "integer divide by zero"
      -- inner `for { if i/len < len(blocks[i%len]) {...; break}; i++ }`; bounded: at most nb-1 skips
      -- can occur while some block still has room; if none has room the Go loop never ends.
      let mut placed := false
      for _ in [0:nb + 1] do
        if !placed then
          let k := i % nb
          let row := i / nb
          if row < (arrs[k]!).size then
            arrs := arrs.modify k (fun a => a.set! row b)
            placed := true
          i := i + 1
      if !placed then Out.panic (α := Unit) "model: de-interleave loop does not terminate"
    pure arrs
  let dat ← deal (buf.take dataLen) (·.1)
  let cor ← deal ((buf.take totalLen).drop dataLen) (·.2)
  pure ((List.range nb).map fun k => ((dat[k]!).toList, (cor[k]!).toList))

end QRV.Model.Sym
