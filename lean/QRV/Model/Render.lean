/-
Model of the part of `Encode` that is code of /repo: the size arithmetic and the quiet-zone copy.
The module size is a rational `snum / sden` (the harness only uses values that are exact in
float64 and for which float64 and exact arithmetic agree on the ceiling).  The area-average
resampler and the tone encoder belong to the go-imaging dependency and are NOT modelled here
(they are exercised by `bin/check C12` against the inequality the property states).
-/
namespace QRV.Model.Render

/-- ⌈a / b⌉ for naturals, b > 0 -/
def ceilDiv (a b : Nat) : Nat := (a + b - 1) / b

/-- width of the intermediate image: symbol plus quiet zone on both sides -/
def srcSize (n q : Nat) : Nat := n + 2 * q

/-- Go: `W := max(int(math.Ceil(float64(w)*ModuleSize)), Width)` -/
def outWidth (n q snum sden width : Nat) : Nat := max (ceilDiv (srcSize n q * snum) sden) width

/-- Go (rmqr): `H := int(math.Ceil(float64(h) * float64(W) / float64(w)))` -/
def outHeight (nw nh q snum sden width : Nat) : Nat :=
  ceilDiv (srcSize nh q * outWidth nw q snum sden width) (srcSize nw q)

/-- the intermediate image: module (x - q, y - q) of the symbol, white outside it -/
def srcPixel (sym : Nat → Nat → Bool) (n_w n_h q : Nat) (x y : Nat) : Bool :=
  if q ≤ x ∧ x < q + n_w ∧ q ≤ y ∧ y < q + n_h then sym (x - q) (y - q) else false

end QRV.Model.Render
