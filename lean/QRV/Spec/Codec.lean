import QRV.Spec.Bits
/-
The standard's bit layout of the four data modes (ISO/IEC 18004 7.4.3-7.4.6), as plain functions
from character strings to bit lists.  Independent of the repository's tables except where a
parameter says so (the alphanumeric index and the kanji code are parameters).
-/
namespace QRV.Spec.Codec
open QRV.Spec.Bits

/-- decimal value of an ASCII digit -/
def digit (ch : Nat) : Nat := ch - 48

/-- 10 bits per 3 digits, 7 bits for a final pair, 4 bits for a final single digit -/
def numericBits : List Nat → List Bool
  | a :: b :: c :: rest => bitsMSB (digit a * 100 + digit b * 10 + digit c) 10 ++ numericBits rest
  | [a, b] => bitsMSB (digit a * 10 + digit b) 7
  | [a] => bitsMSB (digit a) 4
  | [] => []

/-- the 45-character set of 18004 Table 5, in index order -/
def alnumChars : List Nat :=
  [48, 49, 50, 51, 52, 53, 54, 55, 56, 57,
   65, 66, 67, 68, 69, 70, 71, 72, 73, 74, 75, 76, 77, 78, 79, 80, 81, 82, 83, 84, 85, 86, 87, 88, 89, 90,
   32, 36, 37, 42, 43, 45, 46, 47, 58]

/-- index of a character in the 45-set -/
def alnumValue (ch : Nat) : Option Nat :=
  let i := alnumChars.idxOf ch
  if i < 45 then some i else none

/-- 11 bits per pair holding 45·a+b, 6 bits for a final single character -/
def alnumBits : List Nat → List Bool
  | a :: b :: rest => bitsMSB ((alnumValue a).getD 0 * 45 + (alnumValue b).getD 0) 11 ++ alnumBits rest
  | [a] => bitsMSB ((alnumValue a).getD 0) 6
  | [] => []

/-- 8 bits per byte -/
def byteBits : List Nat → List Bool
  | [] => []
  | a :: rest => bitsMSB a 8 ++ byteBits rest

/-- 13 bits per kanji code -/
def kanjiBits : List Nat → List Bool
  | [] => []
  | c :: rest => bitsMSB c 13 ++ kanjiBits rest

/-- the compaction of a Shift JIS double byte (18004 7.4.6):
((hi - 0x81 or 0xC1) * 0xC0 + lo - 0x40) -/
def compact (hi lo : Nat) : Nat := (if hi ≥ 0xE0 then hi - 0xC1 else hi - 0x81) * 0xC0 + (lo - 0x40)

/-- the Shift JIS double byte of a 13-bit code -/
def sjisOf (code : Nat) : Nat × Nat :=
  let h := code / 0xC0
  ((if h < 0x1F then h + 0x81 else h + 0xC1), code % 0xC0 + 0x40)

end QRV.Spec.Codec
