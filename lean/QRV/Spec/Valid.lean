import QRV.Model.Sym
import QRV.Spec.Codec
import QRV.Spec.Tables
import QRV.Lemmas.KanjiFinite
import QRV.Gen.RMQR
/-
Validity of a symbol description, written from the standards (ISO/IEC 18004 7.3-7.4, Tables 2, 3,
7-9; ISO/IEC 23941): the predicate the encoders are required to accept exactly (C08) and under
which the round trip must hold (C01).  Uses `Spec.Tables` for capacities (rMQR: the regenerated
table, see DESIGN.md 2.6) and the cp932-derived reference `Lemmas.Kanji.refAt` for kanji.
-/
namespace QRV.Spec.Valid
open QRV QRV.Model.Sym QRV.Spec.Codec

/-- a character that kanji mode can represent: it has a 13-bit code in the Shift JIS reference -/
def KanjiChar (r : Nat) : Prop := r ≠ 0 ∧ ∃ code, code < 8192 ∧ Lemmas.Kanji.refAt code = r

/-- the bytes of a segment are valid for its data mode `kind` (0 numeric, 1 alphanumeric, 2 byte,
3 kanji); kanji data is whole well-formed UTF-8 characters that kanji mode can represent -/
def ValidData (kind : Nat) (data : List Nat) : Prop :=
  (∀ b ∈ data, b < 256) ∧
  match kind with
  | 0 => ∀ ch ∈ data, 48 ≤ ch ∧ ch ≤ 57
  | 1 => ∀ ch ∈ data, (alnumValue ch).isSome
  | 2 => True
  | _ => (∀ r ∈ Model.Utf8.runes data, KanjiChar r) ∧
         (Model.Utf8.runes data).flatMap Model.Utf8.encodeRune = data

/-- number of characters -/
def count (kind : Nat) (data : List Nat) : Nat :=
  if kind = 3 then (Model.Utf8.runes data).length else data.length

/-- bits of the data part: 10/7/4, 11/6, 8, 13 -/
def bodyBits (kind n : Nat) : Nat :=
  match kind with
  | 0 => 10 * (n / 3) + (if n % 3 = 1 then 4 else if n % 3 = 2 then 7 else 0)
  | 1 => 11 * (n / 2) + 6 * (n % 2)
  | 2 => 8 * n
  | _ => 13 * n

namespace QR

/-- mode indicator → kind -/
def kindOf (mode : Nat) : Option Nat :=
  if mode = 1 then some 0 else if mode = 2 then some 1 else if mode = 4 then some 2 else if mode = 8 then some 3 else none

/-- character count indicator width, 18004 Table 3 -/
def countBits (kind v : Nat) : Nat :=
  let g := if v < 10 then 0 else if v < 27 then 1 else 2
  match kind with
  | 0 => [10, 12, 14][g]!
  | 1 => [9, 11, 13][g]!
  | 2 => [8, 16, 16][g]!
  | _ => [8, 10, 12][g]!

def segBits (s : Segment) (v : Nat) : Nat :=
  match kindOf s.mode with
  | some k => 4 + countBits k v + bodyBits k (count k s.data)
  | none => 0

structure Valid (q : QRCode) : Prop where
  version : 1 ≤ q.version ∧ q.version ≤ 40
  level : 0 ≤ q.level ∧ q.level < 4
  mask : -1 ≤ q.mask ∧ q.mask ≤ 7
  segments : ∀ s ∈ q.segments, ∃ k, kindOf s.mode = some k ∧ ValidData k s.data ∧
    count k s.data < 2 ^ countBits k q.version.toNat
  fits : (q.segments.map fun s => segBits s q.version.toNat).sum ≤ 8 * Tables.dataCodewords q.version.toNat q.level.toNat

end QR

namespace Micro

/-- mode indicator value = kind (numeric 0, alphanumeric 1, byte 2, kanji 3) -/
def kindOf (mode : Nat) : Option Nat := if mode < 4 then some mode else none

/-- character count indicator width, 18004 Table 3 (M1-M4); `none` = mode not available -/
def countBits (kind v : Nat) : Option Nat :=
  match kind, v with
  | 0, 1 => some 3 | 0, 2 => some 4 | 0, 3 => some 5 | 0, 4 => some 6
  | 1, 2 => some 3 | 1, 3 => some 4 | 1, 4 => some 5
  | 2, 3 => some 4 | 2, 4 => some 5
  | 3, 3 => some 3 | 3, 4 => some 4
  | _, _ => none

/-- mode indicator width: M1 0, M2 1, M3 2, M4 3 -/
def modeBits (v : Nat) : Nat := v - 1

def segBits (s : Segment) (v : Nat) : Nat :=
  match kindOf s.mode with
  | some k => match countBits k v with
    | some cb => modeBits v + cb + bodyBits k (count k s.data)
    | none => 0
  | none => 0

/-- data bits of a (version, level indicator) pair, `none` when the pair does not exist (18004 Table 9) -/
def dataBits (v l : Nat) : Option Nat := (Tables.micro.lookup (v, l)).map fun r => r.2.2.2.1

structure Valid (q : QRCode) : Prop where
  version : 1 ≤ q.version ∧ q.version ≤ 4
  level : 0 ≤ q.level
  pair : (dataBits q.version.toNat q.level.toNat).isSome
  mask : -1 ≤ q.mask ∧ q.mask ≤ 3
  segments : ∀ s ∈ q.segments, ∃ k cb, kindOf s.mode = some k ∧ countBits k q.version.toNat = some cb ∧
    ValidData k s.data ∧ count k s.data < 2 ^ cb
  fits : (q.segments.map fun s => segBits s q.version.toNat).sum ≤ (dataBits q.version.toNat q.level.toNat).getD 0

end Micro

namespace RMQR

/-- mode indicator (3 bits): 1 numeric, 2 alphanumeric, 3 byte, 4 kanji -/
def kindOf (mode : Nat) : Option Nat := if 1 ≤ mode ∧ mode ≤ 4 then some (mode - 1) else none

/-- capacity row (ISO/IEC 23941 Tables 3, 8): the regenerated table (no independent source, DESIGN.md 2.6) -/
def row (v l : Nat) : Option Gen.GCap := (Gen.RMQR.capacityTable[v]?.getD [])[l]?

/-- character count indicator width of a mode in a version -/
def countBits (kind : Nat) (c : Gen.GCap) : Nat := c.bitLength[kind + 1]?.getD 0

def segBits (s : Segment) (c : Gen.GCap) : Nat :=
  match kindOf s.mode with
  | some k => 3 + countBits k c + bodyBits k (count k s.data)
  | none => 0

/-- rMQR has no mask choice: the description's mask field is 0 -/
structure Valid (q : QRCode) : Prop where
  version : 0 ≤ q.version ∧ q.version ≤ 31
  level : 0 ≤ q.level ∧ q.level ≤ 1
  mask : q.mask = 0
  segments : ∀ c, row q.version.toNat q.level.toNat = some c → ∀ s ∈ q.segments, ∃ k, kindOf s.mode = some k ∧
    ValidData k s.data ∧ count k s.data < 2 ^ countBits k c
  fits : ∀ c, row q.version.toNat q.level.toNat = some c →
    (q.segments.map fun s => segBits s c).sum ≤ 8 * c.data

end RMQR

/-- C01's extra hypothesis: no empty segment -/
def NonEmptySegments (q : QRCode) : Prop := ∀ s ∈ q.segments, s.data ≠ []

end QRV.Spec.Valid
