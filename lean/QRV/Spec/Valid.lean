import QRV.Model.Sym
import QRV.Spec.Codec
import QRV.Spec.Tables
import QRV.Lemmas.KanjiFinite
/-
Validity of a symbol description, written from the standards (ISO/IEC 18004 7.3-7.4, Tables 2, 3,
7-9; ISO/IEC 23941): the predicate the encoders are required to accept exactly (C08) and under
which the round trip must hold (C01).  Uses `Spec.Tables` for capacities (rMQR: the regenerated
table, see DESIGN.md 2.6) and the cp932-derived reference `Lemmas.Kanji.refAt` for kanji.
-/
namespace QRV.Spec.Valid
open QRV QRV.Model.Sym QRV.Spec.Codec

/-- a character that kanji mode can represent: it has a 13-bit code in the Shift JIS reference -/
def KanjiChar (r : Nat) : Prop := r ≠ 0 ∧ ∃ code, code < 8192 ∧ Lemmas.Kanji.refAt code = r

/-- the bytes of a segment are valid for its data mode `kind` (0 numeric, 1 alphanumeric, 2 byte,
3 kanji); kanji data is whole well-formed UTF-8 characters that kanji mode can represent -/
def ValidData (kind : Nat) (data : List Nat) : Prop :=
  (∀ b ∈ data, b < 256) ∧
  match kind with
  | 0 => ∀ ch ∈ data, 48 ≤ ch ∧ ch ≤ 57
  | 1 => ∀ ch ∈ data, (alnumValue ch).isSome
  | 2 => True
  | _ => (∀ r ∈ Model.Utf8.runes data, KanjiChar r) ∧
         (Model.Utf8.runes data).flatMap Model.Utf8.encodeRune = data

/-- number of characters -/
def count (kind : Nat) (data : List Nat) : Nat :=
  if kind = 3 then (Model.Utf8.runes data).length else data.length

/-- bits of the data part: 10/7/4, 11/6, 8, 13 -/
def bodyBits (kind n : Nat) : Nat :=
  match kind with
  | 0 => 10 * (n / 3) + (if n % 3 = 1 then 4 else if n % 3 = 2 then 7 else 0)
  | 1 => 11 * (n / 2) + 6 * (n % 2)
  | 2 => 8 * n
  | _ => 13 * n

namespace QR

/-- mode indicator → kind -/
def kindOf (mode : Nat) : Option Nat :=
  if mode = 1 then some 0 else if mode = 2 then some 1 else if mode = 4 then some 2 else if mode = 8 then some 3 else none

/-- character count indicator width, 18004 Table 3 -/
def countBits (kind v : Nat) : Nat :=
  let g := if v < 10 then 0 else if v < 27 then 1 else 2
  match kind with
  | 0 => [10, 12, 14][g]!
  | 1 => [9, 11, 13][g]!
  | 2 => [8, 16, 16][g]!
  | _ => [8, 10, 12][g]!

def segBits (s : Segment) (v : Nat) : Nat :=
  match kindOf s.mode with
  | some k => 4 + countBits k v + bodyBits k (count k s.data)
  | none => 0

structure Valid (q : QRCode) : Prop where
  version : 1 ≤ q.version ∧ q.version ≤ 40
  level : 0 ≤ q.level ∧ q.level < 4
  mask : -1 ≤ q.mask ∧ q.mask ≤ 7
  segments : ∀ s ∈ q.segments, ∃ k, kindOf s.mode = some k ∧ ValidData k s.data ∧
    count k s.data < 2 ^ countBits k q.version.toNat
  fits : (q.segments.map fun s => segBits s q.version.toNat).sum ≤ 8 * Tables.dataCodewords q.version.toNat q.level.toNat

end QR

/-- C01's extra hypothesis: no empty segment -/
def NonEmptySegments (q : QRCode) : Prop := ∀ s ∈ q.segments, s.data ≠ []

end QRV.Spec.Valid
