/-
The mask-evaluation scores of ISO/IEC 18004 7.8.3 (QR: features N1, N2, N3; N4 is the dark-module
ratio) and of Micro QR (7.8.3.2: edge score), as declarative functions of a pixel function
`px x y` (x = column, y = row, true = dark) on an n × n symbol.  Written from the standard.
-/
namespace QRV.Spec.Penalty

/-- lengths of the maximal runs of equal colours of a line -/
def runs : List Bool → List Nat
  | [] => []
  | c :: rest =>
    match rest, runs rest with
    | c' :: _, r :: rs => if c = c' then (r + 1) :: rs else 1 :: r :: rs
    | _, _ => [1]

/-- N1 of one line: every run of five or more modules of one colour scores 3 + (length - 5) -/
def n1Line (l : List Bool) : Nat := ((runs l).map fun len => if len ≥ 5 then 3 + (len - 5) else 0).sum

def row (px : Nat → Nat → Bool) (n y : Nat) : List Bool := (List.range n).map fun x => px x y
def col (px : Nat → Nat → Bool) (n x : Nat) : List Bool := (List.range n).map fun y => px x y

/-- N1: adjacent modules in row/column in same colour, all rows then all columns -/
def n1 (px : Nat → Nat → Bool) (n : Nat) : Nat :=
  ((List.range n).map fun y => n1Line (row px n y)).sum + ((List.range n).map fun x => n1Line (col px n x)).sum

/-- N2: every 2 × 2 block of one colour (overlapping blocks counted) scores 3 -/
def n2 (px : Nat → Nat → Bool) (n : Nat) : Nat :=
  3 * ((List.range (n - 1)).map fun y => ((List.range (n - 1)).filter fun x =>
    px x y == px (x + 1) y && px x y == px x (y + 1) && px x y == px (x + 1) (y + 1)).length).sum

/-- colour of module k of a line, light outside the symbol (k is an integer position) -/
def at' (l : List Bool) (k : Int) : Bool := if k < 0 then false else l.getD k.toNat false

/-- occurrences in one line of the 1:1:3:1:1 pattern dark-light-dark-dark-dark-light-dark starting at
position i (entirely inside the line) with four light modules before it or after it (modules outside
the symbol are light); an occurrence with light modules on both sides counts once -/
def n3Line (l : List Bool) : Nat :=
  ((List.range l.length).filter fun i =>
    i + 6 < l.length &&
    (l.getD i false && !l.getD (i + 1) false && l.getD (i + 2) false && l.getD (i + 3) false &&
      l.getD (i + 4) false && !l.getD (i + 5) false && l.getD (i + 6) false) &&
    (((List.range 4).all fun k => !at' l ((i : Int) - 4 + k)) ||
     ((List.range 4).all fun k => !at' l ((i : Int) + 7 + k)))).length

/-- N3: 40 points per occurrence, rows and columns -/
def n3 (px : Nat → Nat → Bool) (n : Nat) : Nat :=
  40 * (((List.range n).map fun y => n3Line (row px n y)).sum + ((List.range n).map fun x => n3Line (col px n x)).sum)

/-- Micro QR edge score: SUM1 = dark modules of the bottom row, SUM2 = dark modules of the right
column, both without the timing-pattern module (position 0); score = 16 × smaller + larger -/
def microEdge (px : Nat → Nat → Bool) (n : Nat) : Nat :=
  let s1 := ((List.range (n - 1)).filter fun k => px (k + 1) (n - 1)).length
  let s2 := ((List.range (n - 1)).filter fun k => px (n - 1) (k + 1)).length
  if s1 > s2 then s2 * 16 + s1 else s1 * 16 + s2

end QRV.Spec.Penalty
