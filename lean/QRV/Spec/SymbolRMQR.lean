import QRV.Lemmas.RRStream
import QRV.Lemmas.RTBlocksIlv
import QRV.Lemmas.RTBlocksSplit
import QRV.Spec.BCH
import QRV.Spec.RS
/-
The complete rMQR symbol of a description, module by module (ISO/IEC 23941: data stream with 3-bit
mode indicators and the 3-bit terminator, block structure and interleaving as in QR, placement in
two-module columns from the right between the timing rows, the single mask pattern, two copies of
the 18-bit version-and-level word with their XOR masks, function patterns).  Declarative: a predicate
on a pixel function `px x y` (x = column, y = row, true = dark).  The capacity rows (block shapes,
count-indicator widths) are the regenerated table: there is no independent source for them offline
(DESIGN.md 2.6), so this specification is relative to them.
-/
namespace QRV.Spec.Symbol.RMQR
open QRV QRV.Model.Sym QRV.Spec.Bits QRV.Spec.Patterns QRV.Spec.Patterns.RMQR
open QRV.Lemmas.RR (segStream streamTail)
open QRV.Lemmas.RT (ilvList sizesOf)

/-- data (and remainder) modules in placement order: column pairs from the right - right columns
width-2, width-4, …, 1; column 0 is the left timing pattern, so the last "pair" is the single column
1 -, the first pair upwards and then alternately downwards and upwards, in each row the right module
before the left one, function modules skipped -/
def dataCoords (v : Nat) : List (Nat × Nat) :=
  let w := width v
  let h := height v
  ((List.range ((w - 1) / 2)).map fun i => w - 2 - 2 * i).zipIdx.flatMap fun (right, k) =>
    (if k % 2 = 0 then (List.range h).reverse else List.range h).flatMap fun y =>
      ([right, right - 1].filter fun x => decide (1 ≤ x) && !isFunction v x y).map fun x => (x, y)

/-- bit of the first copy of the version-and-level word held by module (x, y): 3 columns of 5 and one of 3 beside the finder -/
def formatBit1 (x y : Nat) : Option Nat :=
  if 8 ≤ x ∧ x ≤ 11 ∧ 1 ≤ y ∧ y ≤ 5 ∧ (x - 8) * 5 + (y - 1) < 18 then some ((x - 8) * 5 + (y - 1)) else none

/-- bit of the second copy: 3 columns of 5 left of the finder sub pattern, and 3 modules in the row above it -/
def formatBit2 (w h x y : Nat) : Option Nat :=
  if w - 8 ≤ x ∧ x ≤ w - 6 ∧ h - 6 ≤ y ∧ y ≤ h - 2 then some ((x - (w - 8)) * 5 + (y - (h - 6)))
  else if y = h - 6 ∧ w - 5 ≤ x ∧ x ≤ w - 3 then some (15 + (x - (w - 5)))
  else none

/-- colour of a function module of the finished symbol of version v and level indicator l -/
def functionModule (v l x y : Nat) : Bool :=
  let word := BCH.bch18 (v + 32 * l)
  match formatBit1 x y with
  | some i => (word ^^^ BCH.rmqrMask1).testBit i
  | none =>
    match formatBit2 (width v) (height v) x y with
    | some i => (word ^^^ BCH.rmqrMask2).testBit i
    | none => isDark v x y

/-- the data bit stream: segments, terminator, padding -/
def stream (q : QRCode) (c : Gen.GCap) : List Bool :=
  let s := q.segments.flatMap (segStream c)
  s ++ streamTail (8 * c.data) s.length

/-- the single mask pattern (i = row, j = column): (i / 2 + j / 3) mod 2 = 0 -/
def maskCond (i j : Nat) : Bool := (i / 2 + j / 3) % 2 = 0

/-- `px` is the rMQR symbol of description `q` -/
def IsSymbol (q : QRCode) (px : Nat → Nat → Bool) : Prop :=
  let v := q.version.toNat
  let l := q.level.toNat
  ∃ c, Spec.Valid.RMQR.row v l = some c ∧
  ∃ blks : List (List Nat × List Nat),
    blks.map (fun b => (b.1.length, b.2.length)) = sizesOf c.blocks ∧
    (∀ b ∈ blks, (∀ x ∈ b.1, x < 256) ∧ (∀ x ∈ b.2, x < 256)) ∧
    unpack (blks.flatMap (·.1)) = stream q c ∧
    (∀ b ∈ blks, ∀ i, i < b.2.length → Spec.RS.evalS (b.1 ++ b.2) (Spec.GF.pow2 i) = 0) ∧
    ∀ x y, x < width v → y < height v →
      px x y =
        if isFunction v x y then functionModule v l x y
        else ((unpack (ilvList blks))[(dataCoords v).idxOf (x, y)]?.getD false ^^ maskCond y x)

end QRV.Spec.Symbol.RMQR
