/-
Specification of the bit buffer: an MSB-first FIFO of bits, as plain lists.
-/
namespace QRV.Spec.Bits

/-- the `n` low-order bits of `v`, most significant first -/
def bitsMSB (v : Nat) : (n : Nat) → List Bool
  | 0 => []
  | n + 1 => v.testBit n :: bitsMSB v n

/-- value of a bit list read MSB first -/
def toNat (bs : List Bool) : Nat := bs.foldl (fun acc b => 2 * acc + (if b then 1 else 0)) 0

/-- pack bits MSB-first into bytes, zero-padding the last byte: byte `i` holds bits `8i .. 8i+7` -/
def pack (bs : List Bool) : List Nat :=
  (List.range ((bs.length + 7) / 8)).map fun i =>
    let chunk := (bs.drop (8 * i)).take 8
    toNat chunk * 2 ^ (8 - chunk.length)

/-- all bits of a byte list -/
def unpack (bytes : List Nat) : List Bool := bytes.flatMap (fun b => bitsMSB b 8)

/-- Spec state: bits written so far, and a read cursor in bits into the packed byte image -/
structure Fifo where
  bits : List Bool := []
  cursor : Nat := 0
deriving Repr, DecidableEq

def Fifo.writeBit (f : Fifo) (b : Nat) : Fifo := { f with bits := f.bits ++ [decide (b % 2 = 1)] }
def Fifo.writeBitsLSB (f : Fifo) (v n : Nat) : Fifo := { f with bits := f.bits ++ bitsMSB v n }
def Fifo.len (f : Fifo) : Nat := f.bits.length
def Fifo.bytes (f : Fifo) : List Nat := pack f.bits

/-- reads run over the byte image (padding included) -/
def Fifo.image (f : Fifo) : List Bool := unpack (pack f.bits)

def Fifo.readBit (f : Fifo) : Fifo × Option Nat :=
  match f.image[f.cursor]? with
  | none => (f, none)
  | some b => ({ f with cursor := f.cursor + 1 }, some (if b then 1 else 0))

/-- multi-bit read: EOF iff no bit is left at the start; zero-extended past the end -/
def Fifo.readBits (f : Fifo) (n : Nat) : Fifo × Option Nat :=
  let img := f.image
  if f.cursor ≥ img.length then (f, none)
  else
    let got := (img.drop f.cursor).take n
    ({ f with cursor := f.cursor + got.length }, some (toNat got * 2 ^ (n - got.length)))

end QRV.Spec.Bits
