/-
BCH(15,5) and BCH(18,6) from their generator polynomials (ISO/IEC 18004 Annex C/D, ISO/IEC 23941):
codeword = data·x^r + (data·x^r mod g).  No table of the repository is used.
-/
namespace QRV.Spec.BCH

/-- remainder of `v` modulo the binary polynomial `g` of bit-length `gl` (degree gl-1),
`v` having at most `n` bits: clear bits n-1 … gl-1 from the top -/
def polyMod (g gl : Nat) : (n : Nat) → (v : Nat) → Nat
  | 0, v => v
  | n + 1, v =>
    let v' := if n + 1 ≥ gl ∧ v.testBit n then v ^^^ (g <<< (n + 1 - gl)) else v
    polyMod g gl n v'

/-- BCH(15,5), generator x^10+x^8+x^5+x^4+x^2+x+1 = 0x537 -/
def bch15 (d : Nat) : Nat := (d <<< 10) ||| polyMod 0x537 11 15 (d <<< 10)

/-- BCH(18,6), generator x^12+x^11+x^10+x^9+x^8+x^5+x^2+1 = 0x1F25 -/
def bch18 (d : Nat) : Nat := (d <<< 12) ||| polyMod 0x1F25 13 18 (d <<< 12)

/-- XOR masks of the format information -/
def qrFormatMask : Nat := 0x5412
def microFormatMask : Nat := 0x4445
/-- rMQR: masks of the two copies of the version-and-level information -/
def rmqrMask1 : Nat := 0x1FAB2
def rmqrMask2 : Nat := 0x20A7B

/-- number of differing bits (64-bit words, as `bits.OnesCount` on `uint`) -/
def popcount (n : Nat) : Nat := (List.range 64).foldl (fun c i => c + ((n >>> i) &&& 1)) 0
def hamming (a b : Nat) : Nat := popcount (a ^^^ b)

end QRV.Spec.BCH
