import QRV.Spec.Patterns
/-
Error-correction characteristics (ISO/IEC 18004 Table 9) in the compact form "EC codewords per
block / number of blocks" per (version, level); total codewords from the module geometry.
Written from the standard; nothing of the repository is used.  Level rows are L, M, Q, H.
-/
namespace QRV.Spec.Tables

def eccPerBlock : List (List Nat) := [
  [0, 7, 10, 15, 20, 26, 18, 20, 24, 30, 18, 20, 24, 26, 30, 22, 24, 28, 30, 28, 28, 28, 28, 30, 30, 26, 28, 30, 30, 30, 30, 30, 30, 30, 30, 30, 30, 30, 30, 30, 30],
  [0, 10, 16, 26, 18, 24, 16, 18, 22, 22, 26, 30, 22, 22, 24, 24, 28, 28, 26, 26, 26, 26, 28, 28, 28, 28, 28, 28, 28, 28, 28, 28, 28, 28, 28, 28, 28, 28, 28, 28, 28],
  [0, 13, 22, 18, 26, 18, 24, 18, 22, 20, 24, 28, 26, 24, 20, 30, 24, 28, 28, 26, 30, 28, 30, 30, 30, 30, 28, 30, 30, 30, 30, 30, 30, 30, 30, 30, 30, 30, 30, 30, 30],
  [0, 17, 28, 22, 16, 22, 28, 26, 26, 24, 28, 24, 28, 22, 24, 24, 30, 28, 28, 26, 28, 30, 24, 30, 30, 30, 30, 30, 30, 30, 30, 30, 30, 30, 30, 30, 30, 30, 30, 30, 30]]

def numBlocks : List (List Nat) := [
  [0, 1, 1, 1, 1, 1, 2, 2, 2, 2, 4, 4, 4, 4, 4, 6, 6, 6, 6, 7, 8, 8, 9, 9, 10, 12, 12, 12, 13, 14, 15, 16, 17, 18, 19, 19, 20, 21, 22, 24, 25],
  [0, 1, 1, 1, 2, 2, 4, 4, 4, 5, 5, 5, 8, 9, 9, 10, 10, 11, 13, 14, 16, 17, 17, 18, 20, 21, 23, 25, 26, 28, 29, 31, 33, 35, 37, 38, 40, 43, 45, 47, 49],
  [0, 1, 1, 2, 2, 4, 4, 6, 6, 8, 8, 8, 10, 12, 16, 12, 17, 16, 18, 21, 20, 23, 23, 25, 27, 29, 34, 34, 35, 38, 40, 43, 45, 48, 51, 53, 56, 59, 62, 65, 68],
  [0, 1, 1, 2, 4, 4, 4, 5, 6, 8, 8, 11, 11, 16, 16, 18, 16, 19, 21, 25, 25, 25, 34, 30, 32, 35, 37, 40, 42, 45, 48, 51, 54, 57, 60, 63, 66, 70, 74, 77, 81]]

/-- row of the compact tables for a level indicator value (L=1, M=0, Q=3, H=2) -/
def levelRow (level : Nat) : Nat := if level = 1 then 0 else if level = 0 then 1 else if level = 3 then 2 else 3

/-- number of modules available for codewords = modules that are not function modules -/
def rawModules (v : Nat) : Nat :=
  let n := Patterns.QR.size v
  (List.range n).foldl (fun acc y => (List.range n).foldl (fun acc x => if Patterns.QR.isFunction v x y then acc else acc + 1) acc) 0

/-- closed form of the same number -/
def rawModulesFormula (v : Nat) : Nat :=
  let r := (16 * v + 128) * v + 64
  let r := if v ≥ 2 then r - ((25 * (v / 7 + 2) - 10) * (v / 7 + 2) - 55) else r
  if v ≥ 7 then r - 36 else r

/-- block structure as groups (num, total, data): short blocks first, then blocks one codeword longer -/
def blockGroups (v level : Nat) : List (Nat × Nat × Nat) :=
  let nb := (numBlocks[levelRow level]?.getD [])[v]?.getD 0
  let ecc := (eccPerBlock[levelRow level]?.getD [])[v]?.getD 0
  let raw := rawModulesFormula v / 8
  let long := raw % nb
  let short := nb - long
  let slen := raw / nb
  if long = 0 then [(short, slen, slen - ecc)] else [(short, slen, slen - ecc), (long, slen + 1, slen + 1 - ecc)]

def totalCodewords (v : Nat) : Nat := rawModulesFormula v / 8
def dataCodewords (v level : Nat) : Nat := (blockGroups v level).foldl (fun a g => a + g.1 * g.2.2) 0

/-- Micro QR: (version, level) -> (symbol number, total, data codewords, data bits, EC codewords) -/
def micro : List ((Nat × Nat) × (Nat × Nat × Nat × Nat × Nat)) := [
  ((1, 2), (0, 5, 3, 20, 2)),
  ((2, 1), (1, 10, 5, 40, 5)), ((2, 0), (2, 10, 4, 32, 6)),
  ((3, 1), (3, 17, 11, 84, 6)), ((3, 0), (4, 17, 9, 68, 8)),
  ((4, 1), (5, 24, 16, 128, 8)), ((4, 0), (6, 24, 14, 112, 10)), ((4, 3), (7, 24, 10, 80, 14))]

end QRV.Spec.Tables
