import QRV.Lemmas.MicroRTStream
import QRV.Spec.Tables
import QRV.Spec.BCH
import QRV.Spec.RS
/-
The complete Micro QR symbol (M1-M4) of a description, module by module (ISO/IEC 18004: 7.4 data
stream with the 3/5/7/9-bit terminator and the 4-bit final data codeword of M1/M3, 7.5 one
Reed-Solomon block, 7.7 placement, 7.8 the four mask patterns, 7.9 format information with mask
0x4445).  Declarative: a predicate on a pixel function `px x y` (x = column, y = row, true = dark).
The stream tail (`Lemmas.MRT.mtail`) is the one the library writes: pad codewords EC / 11 written as
half codewords, so that the 4-bit final codeword of M1/M3, when it is a pad codeword, is the first
half of the next pad codeword (the reference encoder of `bin/check C02` admits this form and the
all-zero form; DESIGN.md, C02).
-/
namespace QRV.Spec.Symbol.Micro
open QRV QRV.Model.Sym QRV.Spec.Bits QRV.Spec.Patterns QRV.Spec.Patterns.Micro QRV.Spec.Tables
open QRV.Lemmas.MRT (segStream mtail termLen)

/-- (symbol number, total, data codewords, data bits, EC codewords) of a legal (version, level) pair -/
def row (v l : Nat) : Option (Nat × Nat × Nat × Nat × Nat) := micro.lookup (v, l)

/-- data modules in placement order: column pairs from the right (size-1, size-3, …, 2; column 0 is
the timing pattern), the first one upwards and then alternately downwards and upwards, in each row
the right module before the left one, function modules skipped -/
def dataCoords (v : Nat) : List (Nat × Nat) :=
  let n := size v
  ((List.range ((n - 1) / 2)).map fun i => n - 1 - 2 * i).zipIdx.flatMap fun (right, k) =>
    (if k % 2 = 0 then (List.range n).reverse else List.range n).flatMap fun y =>
      ([right, right - 1].filter fun x => !isFunction v x y).map fun x => (x, y)

/-- format information: bit i (0 = least significant) of the 15-bit word: bits 0-7 in column 8, rows
1-8; bits 7-14 in row 8, columns 8-1 -/
def formatBitAt (x y : Nat) : Option Nat :=
  if x = 8 ∧ 1 ≤ y ∧ y ≤ 8 then some (y - 1)
  else if y = 8 ∧ 1 ≤ x ∧ x ≤ 7 then some (15 - x)
  else none

/-- colour of a function module of the finished symbol with symbol number `sn` and mask m -/
def functionModule (v sn m x y : Nat) : Bool :=
  match formatBitAt x y with
  | some i => (BCH.bch15 (sn * 4 + m) ^^^ BCH.microFormatMask).testBit i
  | none => isDark v x y

/-- the data bit stream (8 × data codewords bits): segments, terminator, padding -/
def stream (q : QRCode) (dataBits dataCw : Nat) : List Bool :=
  let v := q.version.toNat
  let s := q.segments.flatMap (segStream v)
  s ++ mtail (termLen v) dataBits (8 * dataCw) s.length

/-- `px` is the Micro QR symbol of description `q` with mask pattern `m` -/
def IsSymbol (q : QRCode) (m : Nat) (px : Nat → Nat → Bool) : Prop :=
  let v := q.version.toNat
  ∃ sn total dataCw dataBits ecc, row v q.level.toNat = some (sn, total, dataCw, dataBits, ecc) ∧
  ∃ data par : List Nat,
    data.length = dataCw ∧ par.length = ecc ∧ (∀ c ∈ data, c < 256) ∧ (∀ c ∈ par, c < 256) ∧
    unpack data = stream q dataBits dataCw ∧
    (∀ i, i < ecc → Spec.RS.evalS (data ++ par) (Spec.GF.pow2 i) = 0) ∧
    ∀ x y, x < size v → y < size v →
      px x y =
        if isFunction v x y then functionModule v sn m x y
        else ((((unpack data).take dataBits ++ unpack par))[(dataCoords v).idxOf (x, y)]?.getD false ^^ maskCond m y x)

end QRV.Spec.Symbol.Micro
