import QRV.Spec.GF
/-
Reed–Solomon over GF(2^8)/0x11D from the definition: g_n(x) = (x - α^0)(x - α^1)…(x - α^(n-1)),
α = 2, polynomials as big-endian coefficient lists.  No table of the repository is used.

The definitions force every intermediate field element to a numeral (`strict`, which is the
identity function: `strict_eq`) so that the Lean kernel can evaluate them without duplicating
unevaluated sub-terms; this does not change their meaning.
-/
namespace QRV.Spec.RS
open QRV.Spec.GF

/-- `strict n f = f n`; the `match` makes kernel evaluation reduce `n` to a numeral first -/
@[inline] def strict {α : Type} (n : Nat) (f : Nat → α) : α :=
  match n with
  | 0 => f 0
  | k + 1 => f (k + 1)

theorem strict_eq {α : Type} (n : Nat) (f : Nat → α) : strict n f = f n := by
  cases n <;> rfl

/-- coefficients of p·(x + r), given the previous coefficient `prev` (0 at the start):
new_j = p_j + r·p_{j-1}, and a final r·p_last.  In characteristic 2, x - r = x + r. -/
def mulLinearGo (r : Nat) : (prev : Nat) → List Nat → List Nat
  | prev, [] => strict (smul prev r) fun v => [v]
  | prev, c :: cs => strict (c ^^^ smul prev r) fun v => v :: mulLinearGo r c cs

/-- multiply a big-endian polynomial by (x + r) -/
def mulLinear (p : List Nat) (r : Nat) : List Nat := mulLinearGo r 0 p

/-- g_n, monic of degree n: n+1 coefficients; `genPolyFrom k g n` multiplies g by
(x+α^k)(x+α^(k+1))… n times -/
def genPolyFrom : (k : Nat) → (g : List Nat) → (n : Nat) → List Nat
  | _, g, 0 => g
  | k, g, n + 1 => genPolyFrom (k + 1) (mulLinear g (pow2 k)) n

def genPoly (n : Nat) : List Nat := genPolyFrom 0 [1] n

/-- Horner evaluation with the specification's multiplication -/
def evalGo (x : Nat) : (acc : Nat) → List Nat → Nat
  | acc, [] => acc
  | acc, c :: cs => strict (smul acc x ^^^ c) fun v => evalGo x v cs

def evalS (p : List Nat) (x : Nat) : Nat := evalGo x 0 p

end QRV.Spec.RS
