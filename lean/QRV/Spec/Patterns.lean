/-
Function patterns of QR Code (ISO/IEC 18004 6.3, Annex E) as declarative per-module predicates,
and their packing into rows for comparison with the regenerated tables.  Written from the standard;
nothing of the repository is used.  Coordinates: x = column, y = row, origin top-left.
-/
namespace QRV.Spec.Patterns

/-- `strict n f = f n`, forcing `n` to a numeral under kernel evaluation -/
@[inline] def strict {α : Type} (n : Nat) (f : Nat → α) : α :=
  match n with
  | 0 => f 0
  | k + 1 => f (k + 1)

/-- pack a row: pixel x is bit (8*stride - 1 - x) -/
def rowGo (f : Nat → Bool) : (x remaining acc : Nat) → Nat
  | _, 0, acc => acc
  | x, r + 1, acc => strict (2 * acc + (if f x then 1 else 0)) fun a => rowGo f (x + 1) r a

def packRow (f : Nat → Bool) (width stride : Nat) : Nat :=
  rowGo f 0 width 0 <<< (8 * stride - width)

def packRows (f : Nat → Nat → Bool) (width height : Nat) : List Nat :=
  (List.range height).map fun y => packRow (fun x => f x y) width ((width + 7) / 8)

namespace QR

def size (v : Nat) : Nat := 17 + 4 * v

/-- centre coordinates of the alignment patterns, Annex E Table E.1 (by the usual closed form:
first at 6, last at size-7, evenly spaced by an even step, rounding towards the last) -/
def alignPositions (v : Nat) : List Nat :=
  if v = 1 then []
  else
    let n := v / 7 + 2
    let step := if v = 32 then 26 else (v * 4 + n * 2 + 1) / (n * 2 - 2) * 2
    6 :: ((List.range (n - 1)).map fun i => size v - 7 - (n - 2 - i) * step)

/-- |a - b| -/
def dist (a b : Nat) : Nat := if a ≥ b then a - b else b - a

/-- the three finder patterns with their separators occupy the 8x8 corners -/
def inFinderArea (v x y : Nat) : Bool :=
  let n := size v
  (x < 8 && y < 8) || (x ≥ n - 8 && y < 8) || (x < 8 && y ≥ n - 8)

/-- dark modules of a 7x7 finder centred at (cx, cy): rings at Chebyshev distance 0,1 and 3 -/
def finderDark (cx cy x y : Nat) : Bool :=
  let d := max (dist x cx) (dist y cy)
  d ≤ 1 || d = 3

/-- is (cx, cy) an alignment pattern centre (all pairs of positions except the three finder corners) -/
def isAlignCentre (v cx cy : Nat) : Bool :=
  let ps := alignPositions v
  let last := size v - 7
  ps.contains cx && ps.contains cy &&
    !((cx = 6 && cy = 6) || (cx = last && cy = 6) || (cx = 6 && cy = last))

/-- the alignment pattern (if any) covering module (x, y): its centre -/
def alignCentreOf (v x y : Nat) : Option (Nat × Nat) :=
  let ps := alignPositions v
  match ps.find? (fun c => dist x c ≤ 2), ps.find? (fun c => dist y c ≤ 2) with
  | some cx, some cy => if isAlignCentre v cx cy then some (cx, cy) else none
  | _, _ => none

/-- format information modules (both copies, including the always-dark module's position) -/
def inFormatArea (v x y : Nat) : Bool :=
  let n := size v
  (y = 8 && (x ≤ 8 || x ≥ n - 8)) || (x = 8 && (y ≤ 8 || y ≥ n - 8))

/-- version information modules (versions 7-40): two 6x3 blocks -/
def inVersionArea (v x y : Nat) : Bool :=
  let n := size v
  v ≥ 7 && ((y < 6 && x ≥ n - 11 && x ≤ n - 9) || (x < 6 && y ≥ n - 11 && y ≤ n - 9))

/-- function modules: everything that is not a data/remainder module -/
def isFunction (v x y : Nat) : Bool :=
  x = 6 || y = 6 || inFinderArea v x y || (alignCentreOf v x y).isSome || inFormatArea v x y || inVersionArea v x y

/-- dark modules of the function patterns before format/version information is written
(those areas are light; the dark module is written with the format information) -/
def isDark (v x y : Nat) : Bool :=
  let n := size v
  if inFinderArea v x y then
    (x < 8 && y < 8 && x < 7 && y < 7 && finderDark 3 3 x y) ||
    (x ≥ n - 8 && y < 8 && x ≥ n - 7 && y < 7 && finderDark (n - 4) 3 x y) ||
    (x < 8 && y ≥ n - 8 && x < 7 && y ≥ n - 7 && finderDark 3 (n - 4) x y)
  else match alignCentreOf v x y with
    | some (cx, cy) => max (dist x cx) (dist y cy) != 1
    | none =>
      if y = 6 then x % 2 = 0
      else if x = 6 then y % 2 = 0
      else false

def baseRows (v : Nat) : List Nat := packRows (isDark v) (size v) (size v)
def usedRows (v : Nat) : List Nat := packRows (isFunction v) (size v) (size v)

/-- the eight mask patterns, condition on (i = row, j = column) -/
def maskCond (m i j : Nat) : Bool :=
  match m with
  | 0 => (i + j) % 2 = 0
  | 1 => i % 2 = 0
  | 2 => j % 3 = 0
  | 3 => (i + j) % 3 = 0
  | 4 => (i / 2 + j / 3) % 2 = 0
  | 5 => (i * j) % 2 + (i * j) % 3 = 0
  | 6 => ((i * j) % 2 + (i * j) % 3) % 2 = 0
  | _ => ((i + j) % 2 + (i * j) % 3) % 2 = 0

def maskRows (m width height : Nat) : List Nat := packRows (fun x y => maskCond m y x) width height

end QR
end QRV.Spec.Patterns

namespace QRV.Spec.Patterns
namespace Micro

def size (v : Nat) : Nat := 9 + 2 * v

/-- function modules of Micro QR: timing row/column, the finder with its separator, the format area -/
def isFunction (_v x y : Nat) : Bool :=
  x = 0 || y = 0 || (x < 8 && y < 8) || (y = 8 && 1 ≤ x && x ≤ 8) || (x = 8 && 1 ≤ y && y ≤ 8)

def isDark (_v x y : Nat) : Bool :=
  if x < 8 && y < 8 then x < 7 && y < 7 && QR.finderDark 3 3 x y
  else if y = 0 then x % 2 = 0
  else if x = 0 then y % 2 = 0
  else false

def baseRows (v : Nat) : List Nat := packRows (isDark v) (size v) (size v)
def usedRows (v : Nat) : List Nat := packRows (isFunction v) (size v) (size v)

/-- the four Micro QR mask patterns (i = row, j = column) -/
def maskCond (m i j : Nat) : Bool :=
  match m with
  | 0 => i % 2 = 0
  | 1 => (i / 2 + j / 3) % 2 = 0
  | 2 => ((i * j) % 2 + (i * j) % 3) % 2 = 0
  | _ => ((i + j) % 2 + (i * j) % 3) % 2 = 0

def maskRows (m width height : Nat) : List Nat := packRows (fun x y => maskCond m y x) width height

end Micro

namespace RMQR

/-- (height, width) of the 32 rMQR versions in indicator order -/
def sizes : List (Nat × Nat) :=
  [(7, 43), (7, 59), (7, 77), (7, 99), (7, 139), (9, 43), (9, 59), (9, 77), (9, 99), (9, 139),
   (11, 27), (11, 43), (11, 59), (11, 77), (11, 99), (11, 139), (13, 27), (13, 43), (13, 59), (13, 77), (13, 99), (13, 139),
   (15, 43), (15, 59), (15, 77), (15, 99), (15, 139), (17, 43), (17, 59), (17, 77), (17, 99), (17, 139)]

def height (v : Nat) : Nat := (sizes[v]?.getD (0, 0)).1
def width (v : Nat) : Nat := (sizes[v]?.getD (0, 0)).2

/-- columns of the alignment patterns / vertical timing patterns, by symbol width -/
def alignCols (w : Nat) : List Nat :=
  if w = 43 then [21] else if w = 59 then [19, 39] else if w = 77 then [25, 51]
  else if w = 99 then [23, 49, 75] else if w = 139 then [27, 55, 83, 111] else []

/-- alignment pattern (3x3, rows 0-2 and h-3..h-1) covering (x, y): its centre column -/
def alignCol (w h x y : Nat) : Option Nat :=
  if y ≤ 2 || y + 3 ≥ h then (alignCols w).find? (fun c => QR.dist x c ≤ 1) else none

def inFormat1 (x y : Nat) : Bool := (8 ≤ x && x ≤ 10 && 1 ≤ y && y ≤ 5) || (x = 11 && 1 ≤ y && y ≤ 3)
def inFormat2 (w h x y : Nat) : Bool :=
  (w - 8 ≤ x && x ≤ w - 6 && h - 6 ≤ y && y ≤ h - 2) || (y = h - 6 && w - 5 ≤ x && x ≤ w - 3)

def isFunction (v x y : Nat) : Bool :=
  let w := width v
  let h := height v
  x = 0 || y = 0 || x = w - 1 || y = h - 1 ||            -- timing on the four edges
  (alignCols w).contains x || (alignCol w h x y).isSome ||   -- vertical timing and alignment patterns
  (x < 8 && y < 8) ||                                       -- finder and separator
  (x ≥ w - 5 && y ≥ h - 5) ||                               -- finder sub pattern
  (x ≥ w - 2 && y ≤ 1) || (h > 7 && x ≤ 1 && y ≥ h - 2) ||   -- corner finder patterns
  inFormat1 x y || inFormat2 w h x y

def isDark (v x y : Nat) : Bool :=
  let w := width v
  let h := height v
  if x < 8 && y < 8 then x < 7 && y < 7 && QR.finderDark 3 3 x y
  else if x ≥ w - 5 && y ≥ h - 5 then max (QR.dist x (w - 3)) (QR.dist y (h - 3)) != 1
  else if x ≥ w - 2 && y ≤ 1 then !(x = w - 2 && y = 1)
  else if h > 7 && x ≤ 1 && y ≥ h - 2 then !(x = 1 && y = h - 2) && !(h = 9 && x = 0 && y = h - 2)
  else if inFormat1 x y || inFormat2 w h x y then false
  else match alignCol w h x y with
    | some c => !(x = c && (y = 1 || y + 2 = h))
    | none =>
      if y = 0 || y = h - 1 then x % 2 = 0
      else if x = 0 || x = w - 1 || (alignCols w).contains x then y % 2 = 0
      else false

def baseRows (v : Nat) : List Nat := packRows (isDark v) (width v) (height v)
def usedRows (v : Nat) : List Nat := packRows (isFunction v) (width v) (height v)

/-- the single rMQR mask pattern -/
def maskRows (width height : Nat) : List Nat := packRows (fun x y => (y / 2 + x / 3) % 2 = 0) width height

end RMQR
end QRV.Spec.Patterns
