import QRV.Lemmas.RTStream
import QRV.Lemmas.RTBlocksIlv
import QRV.Spec.Tables
import QRV.Spec.BCH
import QRV.Spec.RS
/-
The complete QR symbol of a description, module by module, written from ISO/IEC 18004
(7.4 data stream, 7.5 error correction and block structure, 7.6 codeword interleaving,
7.7 placement, 7.8 masking, 7.9 format information, 7.10 version information).
Declarative: the symbol is characterised by a predicate on a pixel function, not computed by the
repository's loops.  Pieces reused from elsewhere, all declarative lists: `segStream`/`streamTail`
(the bit stream, `Lemmas/RTStream.lean`), `ilvList` (interleaving, `Lemmas/RTBlocksIlv.lean`),
`Spec.Patterns` (function patterns, mask conditions), `Spec.Tables` (block structure), `Spec.BCH`,
`Spec.RS` (evaluation of a codeword polynomial at the roots of the generator).
Coordinates: x = column, y = row, origin top-left; a pixel function is `px x y`, true = dark.
-/
namespace QRV.Spec.Symbol.QR
open QRV QRV.Model.Sym QRV.Spec.Bits QRV.Spec.Patterns QRV.Spec.Patterns.QR QRV.Spec.Tables
open QRV.Lemmas.RT (segStream streamTail ilvList)

/-- right-hand column of each two-module column pair, in placement order: size-1, size-3, …, 8,
then (the vertical timing pattern in column 6 is skipped) 5, 3, 1 -/
def pairRights (n : Nat) : List Nat := ((List.range ((n - 7) / 2)).map fun i => n - 1 - 2 * i) ++ [5, 3, 1]

/-- data (and remainder) modules in placement order (7.7.3): column pairs from the right, the first
one upwards and then alternately downwards and upwards, in each row the right module before the
left one, function modules skipped -/
def dataCoords (v : Nat) : List (Nat × Nat) :=
  let n := size v
  (pairRights n).zipIdx.flatMap fun (right, k) =>
    (if k % 2 = 0 then (List.range n).reverse else List.range n).flatMap fun y =>
      ([right, right - 1].filter fun x => !isFunction v x y).map fun x => (x, y)

/-- format information (7.9): bit i (0 = least significant) of the 15-bit word sits at these two
modules -/
def formatPos (n i : Nat) : (Nat × Nat) × (Nat × Nat) :=
  let first : Nat × Nat :=
    if i ≤ 5 then (8, i) else if i = 6 then (8, 7) else if i = 7 then (8, 8) else if i = 8 then (7, 8) else (14 - i, 8)
  let second : Nat × Nat := if i ≤ 7 then (n - 1 - i, 8) else (8, n - 15 + i)
  (first, second)

/-- the format bit held by module (x, y), if it is a format module -/
def formatBitAt (n x y : Nat) : Option Nat :=
  (List.range 15).find? fun i => (formatPos n i).1 == (x, y) || (formatPos n i).2 == (x, y)

/-- version information (7.10, versions 7-40): bit i of the 18-bit word sits at (size-11+i%3, i/3)
and at its transpose -/
def versionBitAt (v x y : Nat) : Option Nat :=
  if v < 7 then none
  else (List.range 18).find? fun i =>
    ((size v - 11 + i % 3, i / 3) == (x, y)) || ((i / 3, size v - 11 + i % 3) == (x, y))

/-- colour of a function module of the finished symbol of version v, level indicator l, mask m -/
def functionModule (v l m x y : Nat) : Bool :=
  let n := size v
  if x = 8 && y = n - 8 then true
  else match formatBitAt n x y with
    | some i => (BCH.bch15 (l * 8 + m) ^^^ BCH.qrFormatMask).testBit i
    | none =>
      match versionBitAt v x y with
      | some i => (BCH.bch18 v).testBit i
      | none => isDark v x y

/-- (data, error correction) codeword counts of the blocks of (version, level), in block order -/
def blockShapes (v l : Nat) : List (Nat × Nat) :=
  (blockGroups v l).flatMap fun g => List.replicate g.1 (g.2.2, g.2.1 - g.2.2)

/-- the data bit stream of a description: segments, terminator, padding (7.4) -/
def stream (q : QRCode) : List Bool :=
  let v := q.version.toNat
  let s := q.segments.flatMap (segStream v)
  s ++ streamTail (8 * dataCodewords v q.level.toNat) s.length

/-- `px` is the symbol of description `q` with mask pattern `m`: there are blocks of the shapes of
Table 9 whose data codewords are the data stream cut consecutively, whose error correction codewords
make every block a Reed-Solomon codeword (the block polynomial vanishes at α^0 … α^(ecc-1)); the
data modules carry, in placement order, the bits of the interleaved codeword sequence followed by
zero remainder bits, XOR the mask condition; the function modules are the function patterns, the
format information of (level, m), the dark module and (v ≥ 7) the version information -/
def IsSymbol (q : QRCode) (m : Nat) (px : Nat → Nat → Bool) : Prop :=
  let v := q.version.toNat
  let l := q.level.toNat
  ∃ blks : List (List Nat × List Nat),
    blks.map (fun b => (b.1.length, b.2.length)) = blockShapes v l ∧
    (∀ b ∈ blks, (∀ c ∈ b.1, c < 256) ∧ (∀ c ∈ b.2, c < 256)) ∧
    unpack (blks.flatMap (·.1)) = stream q ∧
    (∀ b ∈ blks, ∀ i, i < b.2.length → Spec.RS.evalS (b.1 ++ b.2) (Spec.GF.pow2 i) = 0) ∧
    ∀ x y, x < size v → y < size v →
      px x y =
        if isFunction v x y then functionModule v l m x y
        else ((unpack (ilvList blks))[(dataCoords v).idxOf (x, y)]?.getD false ^^ maskCond m y x)

end QRV.Spec.Symbol.QR
