/-
GF(2)[x]/(x^8+x^4+x^3+x^2+1) written from the definition: no table, nothing shared with the
repository.  Elements are `Nat`s below 256.
-/
namespace QRV.Spec.GF

/-- multiply by x and reduce by 0x11D -/
@[inline] def xtime (a : Nat) : Nat :=
  if a &&& 0x80 = 0 then a <<< 1 else (a <<< 1) ^^^ 0x11D

@[inline] def term (a b : Nat) (i : Nat) : Nat := if b.testBit i then a else 0

/-- carry-less product reduced by 0x11D: Σ_i b_i · (a·x^i mod p), the 8 steps unrolled -/
def smul (a b : Nat) : Nat :=
  let a1 := xtime a; let a2 := xtime a1; let a3 := xtime a2; let a4 := xtime a3
  let a5 := xtime a4; let a6 := xtime a5; let a7 := xtime a6
  term a b 0 ^^^ term a1 b 1 ^^^ term a2 b 2 ^^^ term a3 b 3 ^^^
  term a4 b 4 ^^^ term a5 b 5 ^^^ term a6 b 6 ^^^ term a7 b 7

/-- 2^k in the field -/
def pow2 : Nat → Nat
  | 0 => 1
  | k + 1 => xtime (pow2 k)

end QRV.Spec.GF
