import QRV.Props.C01
import QRV.Props.C02
import QRV.Props.C18
import QRV.Lemmas.EncScan
import QRV.Lemmas.EncMask
/-
C10 — automatic masking picks the best pattern; explicit masks are honoured.

Explicit masks: the mask canvases are the standard's formulas on every module (C02.qr_mask_patterns,
kernel evaluation) and `Mask` applies exactly that pattern to exactly the non-function modules
(C18.mask_spec).  Automatic masking: the selection loops of the QR and Micro QR models return a
pattern attaining the minimum (resp. maximum) of the scores they computed, and the emitted symbol
is the one emitted for that explicit pattern.  That the computed scores are the standard's penalty
(N1-N4 on the finished symbol) is compared with a reference scorer by `bin/check C10`.
-/
namespace QRV.Props.C10
open QRV QRV.Model QRV.Model.Sym QRV.Model.Bitmap QRV.Spec.Valid

/-- the penalty the QR model computes for candidate pattern `i`: mask the symbol, place the format
information of (level, i) and the dark module, score -/
def qrScore (level w : Int) (used img : Image) (i : Nat) : Out Nat := do
  let pat ← deref (← imgAt Model.QR.maskList i)
  let tmp ← Image.mask img used pat
  let format ← natAt Gen.QR.encodedFormat (level * 8 + i)
  let tmp ← Model.QR.placeFormat tmp w format
  tmp.point

/-- QR: with automatic masking the emitted symbol is identical to the one emitted with some
explicit pattern m, and m is in range -/
theorem qr_auto_is_explicit (q : QRCode) (hv : QR.Valid q) (hauto : q.mask = -1) :
    ∃ img m, Model.QR.encodeToBitmap q = .ok img ∧ 0 ≤ m ∧ m ≤ 7 ∧
      Model.QR.encodeToBitmap { q with mask := m } = .ok img := by
  obtain ⟨img, _, _, m, _, h1, hm, h2, _⟩ := Lemmas.Enc.auto_argmin q hv hauto
  exact ⟨img, (m : Int), h1, by omega, by omega, h2⟩

/-- QR, automatic masking is an argmin.  With `used` the function-module map of the version and
`sym` the symbol before masking (codewords placed, version information written), the mask `m` the
selection loop returns is such that: all eight candidate penalties `qrScore … j` exist (`sc j`),
`sc m` is their minimum and `m` is the first index attaining it; the emitted symbol is `sym` with
the format information of (level, m), masked with pattern m, and it is what the encoder emits when
asked for the explicit pattern `m`. -/
theorem qr_auto_is_argmin (q : QRCode) (hv : QR.Valid q) (hauto : q.mask = -1) :
    ∃ (img used sym : Image) (m : Nat) (sc : Nat → Nat),
      Model.QR.encodeToBitmap q = .ok img ∧ m < 8 ∧
      Model.QR.encodeToBitmap { q with mask := (m : Int) } = .ok img ∧
      imgAt Model.QR.usedList q.version = .ok (some used) ∧
      (∃ ibuf base img1, Model.QR.encodeToBits q {} = .ok ibuf ∧
        imgAt Model.QR.baseList q.version = .ok (some base) ∧
        Model.QR.placeLoop used (16 + 4 * q.version) ((16 + 4 * q.version + 3) * (16 + 4 * q.version + 3)).toNat
          { x := 16 + 4 * q.version, y := 16 + 4 * q.version, dy := -1 } ibuf base = .ok img1 ∧
        Lemmas.RT.versionStep q.version (16 + 4 * q.version) img1 = .ok sym) ∧
      Lemmas.RT.chooseMask (-1) q.level (16 + 4 * q.version) used sym = .ok (m : Int) ∧
      Lemmas.RT.finish q.level (16 + 4 * q.version) used sym (m : Int) = .ok img ∧
      (∀ j, j < 8 → qrScore q.level (16 + 4 * q.version) used sym j = .ok (sc j)) ∧
      (∀ j, j < 8 → sc m ≤ sc j) ∧ (∀ j, j < m → sc m < sc j) :=
  Lemmas.Enc.auto_argmin q hv hauto

/-- Micro QR: the selection loop returns the FIRST pattern attaining the MAXIMUM edge score among
the four candidates -/
theorem micro_auto_is_argmax (img used : Image) (m : Int) (h : Model.Micro.autoMask img used = .ok m) :
    ∃ s0 s1 s2 s3 : Nat,
      Model.Micro.maskScore img used 0 = .ok s0 ∧ Model.Micro.maskScore img used 1 = .ok s1 ∧
      Model.Micro.maskScore img used 2 = .ok s2 ∧ Model.Micro.maskScore img used 3 = .ok s3 ∧
      0 ≤ m ∧ m ≤ 3 ∧
      (let ss := [s0, s1, s2, s3]
       ∀ j, j < 4 → ss[j]! ≤ ss[m.toNat]! ∧ (j < m.toNat → ss[j]! < ss[m.toNat]!)) :=
  Lemmas.Enc.micro_auto_is_argmax img used m h

/-- the generic fact behind both loops: a strict-comparison scan returns the first index attaining
the extremum -/
theorem first_min_scan (ss : List Nat) (hne : ss ≠ []) :
    let r := (List.range ss.length).foldl (fun (acc : Nat × Nat) i => if ss[i]! < acc.2 then (i, ss[i]!) else acc) (0, ss[0]!)
    r.1 < ss.length ∧ r.2 = ss[r.1]! ∧ (∀ j, j < ss.length → r.2 ≤ ss[j]!) ∧ (∀ j, j < r.1 → r.2 < ss[j]!) :=
  Lemmas.Enc.first_min_scan ss hne

/-- explicit masks: the canvas of pattern m is the standard's formula on every module -/
theorem qr_explicit_mask_canvas (m : Nat) (h : m < 8) :
    ∃ g, Gen.QR.maskList[m]? = some g ∧
      g = { minX := 0, minY := 0, maxX := 184, maxY := 177, stride := 23, pixLen := 23 * 177,
            rows := Spec.Patterns.QR.maskRows m 184 177 } := C02.qr_mask_patterns m h

end QRV.Props.C10
