import QRV.Props.C04
import QRV.Props.C05
import QRV.Props.C01
import QRV.Lemmas.NewQRValid
import QRV.Lemmas.NewQRPanic
/-
C04 — `New` of the QR package, with and without kanji: whenever it accepts a payload, the returned
description is VALID (`Spec.Valid.QR.Valid`), its segments are non-empty and concatenate to the
payload; hence (C01.roundtrip_QR) it encodes without error and decodes back to the payload.
Payload size bound `< 2^56` bytes: see C04.newQR_valid_QR (costs are capped at 2^63-1-2^18).
-/
namespace QRV.Props.C04
open QRV QRV.Model QRV.Model.Sym QRV.Spec.Valid

/-- a segment list that fits a version's data capacity has every character count below the limit of
its count indicator (so `New`, which tests only the bit length, never returns an unencodable count) -/
theorem qr_fit_implies_count (v level : Nat) (h1 : 1 ≤ v) (h40 : v ≤ 40) (hl : level < 4) (s : Segment) (k : Nat)
    (hk : Spec.Valid.QR.kindOf s.mode = some k)
    (hfit : Spec.Valid.QR.segBits s v ≤ 8 * Spec.Tables.dataCodewords v level) :
    count k s.data < 2 ^ Spec.Valid.QR.countBits k v := by
  exact Lemmas.FitCount.qr_fit_implies_count v level h1 h40 hl s k hk hfit

/-- QR `New`, kanji disabled or enabled: the description it returns is valid, concatenates to the
payload and has no empty segment; kanji segments appear only when kanji is enabled -/
theorem qr_new_valid (level : Int) (kanji : Bool) (data : List Nat) (hb : ∀ b ∈ data, b < 256)
    (hsz : data.length < 2 ^ 56) (q : QRCode) (h : Model.QR.new level kanji data = .ok q) :
    Spec.Valid.QR.Valid q ∧ q.level = level ∧ q.mask = -1 ∧ q.segments.flatMap (·.data) = data ∧
      (∀ s ∈ q.segments, s.data ≠ []) ∧ (kanji = false → ∀ s ∈ q.segments, s.mode ≠ 8) := by
  exact Lemmas.NewQRValid.qr_new_valid level kanji data hb hsz q h

/-- QR `New` end to end: the returned description encodes and decodes back to the payload -/
theorem qr_new_roundtrip (level : Int) (kanji : Bool) (data : List Nat) (hb : ∀ b ∈ data, b < 256)
    (hsz : data.length < 2 ^ 56) (q : QRCode) (h : Model.QR.new level kanji data = .ok q) :
    ∃ img q', Model.QR.encodeToBitmap q = .ok img ∧ Model.QR.decodeBitmap img = .ok q' ∧
      q'.version = q.version ∧ q'.level = level ∧ q'.segments.flatMap (·.data) = data := by
  exact Lemmas.NewQRValid.qr_new_roundtrip level kanji data hb hsz q h

/-- QR `New` never panics.

CORRECTED STATEMENT: the hypothesis `hsz` was added.  The original statement

    theorem qr_new_no_panic (level : Int) (kanji : Bool) (data : List Nat) (hb : ∀ b ∈ data, b < 256) :
        (Model.QR.new level kanji data).isPanic = false

is false for `kanji = false`: costs of the non-kanji programme are capped at `inf = 2^63 - 1 - 2^18`
and every character costs at least 20, so for any payload of `n ≥ inf / 20` bytes (about 4.6e17
bytes; not evaluable) the whole last row is `{cost := inf, lastMode := 0}`, the back-tracking reads
predecessor 0 for every position but the last, the FIRST segment of the result has mode
`modeList[0] = 0`, and `calcVersion` asks `Segment.length` of it in version 1, which panics
("qrcode: unknown mode").  Proved for every valid level and every payload with
`inf ≤ 20 * data.length` in `qr_new_panics_long`; the unbounded statement is refuted formally
(`2 ^ 60` zero bytes, never evaluated) in `qr_new_no_panic_unbounded_false`.
With kanji enabled no bound is needed: the back-tracking of the kanji programme only emits mode
indices 1..4 (`Lemmas.NewKanjiValid.newKanji_modes`). -/
theorem qr_new_no_panic (level : Int) (kanji : Bool) (data : List Nat) (hb : ∀ b ∈ data, b < 256)
    (hsz : kanji = false → data.length < 2 ^ 56) :
    (Model.QR.new level kanji data).isPanic = false := by
  exact Lemmas.NewQRValid.qr_new_no_panic level kanji data hb hsz

/-- QR `New` without kanji panics on every payload of at least `inf / 20` bytes (valid level) -/
theorem qr_new_panics_long (level : Int) (hlv : Model.QR.levelIsValid level = true) (data : List Nat)
    (h2 : 2 ≤ data.length) (hbig : Model.New.inf ≤ 20 * data.length) :
    (Model.QR.new level false data).isPanic = true := by
  exact Lemmas.NewQRPanic.qr_new_panics_long level hlv data h2 hbig

/-- the original statement of `qr_new_no_panic`, without a bound on the payload length, is false -/
theorem qr_new_no_panic_unbounded_false :
    ¬ ∀ (level : Int) (kanji : Bool) (data : List Nat), (∀ b ∈ data, b < 256) →
      (Model.QR.new level kanji data).isPanic = false := by
  exact Lemmas.NewQRPanic.qr_new_no_panic_unbounded_false

/-! non-vacuity -/
example : (match Model.QR.new 0 true [0xE6, 0x97, 0xA5, 0x31, 0x32, 0x33, 0x34, 0x35, 0x36, 0x37, 0x38, 0x61] with
    | .ok q => q.segments.map (·.mode) == [8, 1, 4] && q.version == 1
    | _ => false) = true := by decide +kernel

end QRV.Props.C04
