import QRV.Props.C06RMQR
import QRV.Props.C01RMQR
/-
C07 — rMQR: a decoded description that fits the symbol re-encodes and decodes to itself
(well-formedness C06RMQR.rmqr_decoded_wf + round trip C01RMQR.roundtrip_RMQR).  Descriptions that do
not fit arise only from the recorded finding D16 (truncated final character, zero-extended).
-/
namespace QRV.Props.C07
open QRV QRV.Model QRV.Model.Sym QRV.Model.Bitmap QRV.Spec.Valid

theorem rmqr_decoded_reencodes (img : Image) (hw : C06.WellFormed img) (q : QRCode)
    (h : Model.RMQR.decodeBitmap img = .ok q)
    (hfit : ∀ c, Spec.Valid.RMQR.row q.version.toNat q.level.toNat = some c →
      (q.segments.map fun s => Spec.Valid.RMQR.segBits s c).sum ≤ 8 * c.data) :
    ∃ img', Model.RMQR.encodeToBitmap q = .ok img' ∧ Model.RMQR.decodeBitmap img' = .ok q := by
  obtain ⟨wf, _, _⟩ := C06.rmqr_decoded_wf img hw q h
  exact C01.roundtrip_RMQR q ⟨wf.version, wf.level, wf.mask, wf.segments, hfit⟩

end QRV.Props.C07
