import QRV.Model.QR
import QRV.Model.Micro
import QRV.Model.RMQR
import QRV.Gen.Shape
/-
C09 — API calls are pure, repeatable and safe to run concurrently.

The models are pure Lean functions, so equal inputs give equal results whatever was called before:
determinism and history-independence of the MODEL hold by construction.  What carries content is
(a) that the decoder models RETURN THE CALLER'S BITMAP AS IT IS AFTER THE CALL (`decodeBitmapFull`),
which is compared with the Go code by `bin/check C09`, and the theorem that this post-state equals the
input; (b) the regenerated shape facts: the only function of the library that assigns to a
package-level variable is `bitstream.init`, and the tables of images are only ever read, passed as
the read-only arguments of `Mask`, or cloned before being drawn on.  A new write to shared state,
or a table used without `Clone`, changes `Gen.Shape` and breaks these obligations.
The "all interleavings" clause is argued from (a)+(b) (no shared mutable state) and backed by the race
detector runs of `bin/check C09`; it is not a theorem (DESIGN.md, C09).
-/
namespace QRV.Props.C09
open QRV QRV.Model QRV.Model.Sym QRV.Model.Bitmap

/-- the second component of every successful result is `img` -/
def SndIs {α : Type} (img : Image) (m : Out (α × Image)) : Prop := ∀ r, m = .ok r → r.2 = img

theorem sndIs_pure {α} (img : Image) (a : α) : SndIs img (pure (a, img) : Out (α × Image)) := by
  intro r h; cases h; rfl
theorem sndIs_bind {α β} (img : Image) (x : Out β) (f : β → Out (α × Image)) (h : ∀ b, SndIs img (f b)) :
    SndIs img (x >>= f) := by
  intro r hr
  cases x with
  | ok b => exact h b r hr
  | err m => cases hr
  | panic m => cases hr
theorem sndIs_ite {α} (img : Image) (c : Prop) [Decidable c] (a b : Out (α × Image))
    (ha : SndIs img a) (hb : SndIs img b) : SndIs img (if c then a else b) := by
  split <;> assumption
theorem sndIs_err {α} (img : Image) (m : String) : SndIs img (Out.err m : Out (α × Image)) := by
  intro r h; cases h
theorem sndIs_panic {α} (img : Image) (m : String) : SndIs img (Out.panic m : Out (α × Image)) := by
  intro r h; cases h

/-- QR: DecodeBitmap leaves the caller's bitmap bit-for-bit unchanged -/
theorem qr_decode_preserves_bitmap (img img' : Image) (q : QRCode)
    (h : Model.QR.decodeBitmapFull img = .ok (q, img')) : img' = img := by
  have : SndIs img (Model.QR.decodeBitmapFull img) := by
    unfold Model.QR.decodeBitmapFull
    simp only [Model.QR.DECODE_CLONES, if_true]
    repeat' (first
      | apply sndIs_pure
      | apply sndIs_err
      | apply sndIs_panic
      | (apply sndIs_bind; intro _)
      | (apply sndIs_ite))
  exact this _ h


/-- Micro QR: DecodeBitmap leaves the caller's bitmap unchanged -/
theorem micro_decode_preserves_bitmap (img img' : Image) (q : QRCode)
    (h : Model.Micro.decodeBitmapFull img = .ok (q, img')) : img' = img := by
  have : SndIs img (Model.Micro.decodeBitmapFull img) := by
    unfold Model.Micro.decodeBitmapFull
    simp only [Model.Micro.DECODE_CLONES, if_true]
    apply sndIs_bind; intro raw
    apply sndIs_bind; intro b
    cases b with
    | none => exact sndIs_err _ _
    | some t =>
      obtain ⟨v, l, m⟩ := t
      simp only []
      repeat' (first
        | apply sndIs_pure
        | apply sndIs_err
        | apply sndIs_panic
        | (apply sndIs_bind; intro _)
        | (apply sndIs_ite))
  exact this _ h

/-- rMQR: DecodeBitmap leaves the caller's bitmap unchanged -/
theorem rmqr_decode_preserves_bitmap (img img' : Image) (q : QRCode)
    (h : Model.RMQR.decodeBitmapFull img = .ok (q, img')) : img' = img := by
  have : SndIs img (Model.RMQR.decodeBitmapFull img) := by
    unfold Model.RMQR.decodeBitmapFull
    simp only [Model.RMQR.DECODE_CLONES, if_true]
    repeat' (first
      | apply sndIs_pure
      | apply sndIs_err
      | apply sndIs_panic
      | (apply sndIs_bind; intro _)
      | (apply sndIs_ite))
  exact this _ h

/-- decoding the same bitmap twice gives the same answer twice (the second call sees the same bitmap) -/
theorem qr_decode_twice (img : Image) (q : QRCode) (img' : Image)
    (h : Model.QR.decodeBitmapFull img = .ok (q, img')) :
    Model.QR.decodeBitmapFull img' = .ok (q, img') := by
  have := qr_decode_preserves_bitmap img img' q h
  subst this; exact h

/-- write set: the only function assigning to a package-level variable is the initialiser of the
alphanumeric index table (regenerated from the Go AST on every run) -/
theorem no_shared_writes : Gen.Shape.globalWrites = ["internal/bitstream:init->alphabets"] := by decide

/-- how the package-level tables of images are used: indexed and read, passed as the read-only
arguments of `Mask`, and CLONED before being drawn on in the three `EncodeToBitmap` functions -/
theorem image_tables_read_only : Gen.Shape.imageTableUses = [
    ".:DecodeBitmap: binimg = new(internalbitmap.Image).Mask(binimg, used, maskList[mask])",
    ".:DecodeBitmap: used := usedList[version]",
    ".:QRCode.EncodeToBitmap: img := baseList[qr.Version].Clone()",
    ".:QRCode.EncodeToBitmap: img.Mask(img, used, maskList[mask])",
    ".:QRCode.EncodeToBitmap: tmp.Mask(img, used, maskList[i])",
    ".:QRCode.EncodeToBitmap: used := usedList[qr.Version]",
    "microqr:DecodeBitmap: binimg = new(internalbitmap.Image).Mask(binimg, used, maskList[mask])",
    "microqr:DecodeBitmap: used := usedList[version]",
    "microqr:QRCode.EncodeToBitmap: img := baseList[qr.Version].Clone()",
    "microqr:QRCode.EncodeToBitmap: img.Mask(img, used, maskList[mask])",
    "microqr:QRCode.EncodeToBitmap: tmp.Mask(img, used, maskList[i])",
    "microqr:QRCode.EncodeToBitmap: used := usedList[qr.Version]",
    "rmqr:DecodeBitmap: binimg = new(internalbitmap.Image).Mask(binimg, used, precomputedMask)",
    "rmqr:DecodeBitmap: used := usedList[version]",
    "rmqr:QRCode.EncodeToBitmap: img := baseList[qr.Version].Clone()",
    "rmqr:QRCode.EncodeToBitmap: img.Mask(img, used, precomputedMask)",
    "rmqr:QRCode.EncodeToBitmap: used := usedList[qr.Version]",
    "rmqr:Version.Height: base := baseList[version]",
    "rmqr:Version.String: base := baseList[version]",
    "rmqr:Version.Width: base := baseList[version]"] := by decide

/-- the package-level variables of the library are exactly the generated tables (plus the alphabet
index built by `bitstream.init`): there is no pool, cache, memo table or counter in which state could
survive from one call to the next.  Regenerated from the Go AST on every run: a new package-level
variable breaks this obligation. -/
theorem package_vars_pinned : Gen.Shape.packageVars = [".:baseList",
      ".:capacityTable",
      ".:encodedFormat",
      ".:encodedVersion",
      ".:maskList",
      ".:usedList",
      "internal/bitstream:alphabets",
      "internal/bitstream:bitToAlphanumeric",
      "internal/bitstream:decode",
      "internal/bitstream:encode0",
      "internal/bitstream:encode1",
      "internal/bitstream:encode2",
      "internal/bitstream:encode3",
      "internal/bitstream:encode4",
      "internal/reedsolomon/element:expTable",
      "internal/reedsolomon/element:logTable",
      "internal/reedsolomon:coders",
      "microqr:baseList",
      "microqr:capacityTable",
      "microqr:encodedFormat",
      "microqr:formatTable",
      "microqr:maskList",
      "microqr:rawFormatTable",
      "microqr:usedList",
      "rmqr:baseList",
      "rmqr:capacityOrderArea",
      "rmqr:capacityOrderHeight",
      "rmqr:capacityOrderWidth",
      "rmqr:capacityTable",
      "rmqr:encodedVersion",
      "rmqr:precomputedMask",
      "rmqr:usedList"] := by decide

/-! non-vacuity: a blank 21x21 bitmap is answered with an error and not modified (no ok result) -/
example : (Model.QR.decodeBitmapFull (Image.new 0 0 21 21)).isErr = true := by decide +kernel

end QRV.Props.C09
