import QRV.Gen.Shape
/-!
# C08 / C12 — the public entry points that are glue around the modelled core

`Encode` (package function), `(*QRCode).Encode` (image method) and `New` (option handling) are not part of the
functional model: the model starts at `newQR` / `newFromKanji` and at `EncodeToBitmap`.  What the theorems about
`EncodeToBitmap` (accepted exactly when valid, never a panic) and `New` say about these wrappers rests on HOW they
reach the modelled functions: the package-level `Encode` is `New` followed by the image method, the image method
draws through the validating `EncodeToBitmap` (not through an unexported drawing function), `New` dispatches to
`newFromKanji` / `newQR` after the level check.  This call structure (callees in order of first appearance) is
regenerated from the Go AST on every run and pinned here: a wrapper that stops going through the validating entry
point breaks this obligation, and the check then looks for a failing input with the `*.encimg` / `render` /
`*.new` lines, which run the wrappers themselves.
-/
namespace QRV.Props.C08

theorem entry_calls_pinned : Gen.Shape.entryCalls = [".:Encode -> New qr.Encode",
  ".:New -> newEncodeOptions lv.IsValid fmt.Errorf newFromKanji newQR",
  ".:QRCode.Encode -> qr.Version.IsValid errors.New qr.Level.IsValid newEncodeOptions qr.EncodeToBitmap binimg.Bounds().Dx binimg.Bounds fp16.NewNRGBAh image.Rect fp16color.NewNRGBAh binimg.BinaryAt src.SetNRGBAh max int math.Ceil float64 resize.AreaAverage srgb.EncodeTone",
  "microqr:Encode -> New qr.Encode",
  "microqr:New -> newEncodeOptions fmt.Errorf newFromKanji newQR",
  "microqr:QRCode.Encode -> newEncodeOptions qr.EncodeToBitmap binimg.Bounds().Dx binimg.Bounds fp16.NewNRGBAh image.Rect fp16color.NewNRGBAh binimg.BinaryAt src.SetNRGBAh max int math.Ceil float64 resize.AreaAverage srgb.EncodeTone",
  "rmqr:Encode -> New qr.Encode",
  "rmqr:New -> newEncodeOptions lv.IsValid fmt.Errorf newFromKanji newQR",
  "rmqr:QRCode.Encode -> qr.Version.IsValid errors.New qr.Level.IsValid newEncodeOptions qr.EncodeToBitmap binimg.Bounds().Dx binimg.Bounds binimg.Bounds().Dy fp16.NewNRGBAh image.Rect fp16color.NewNRGBAh binimg.BinaryAt src.SetNRGBAh max int math.Ceil float64 resize.AreaAverage srgb.EncodeTone"] := rfl

end QRV.Props.C08
