import QRV.Gen.Shape
/-!
# C08 / C12 — the public entry points that are glue around the modelled core

`Encode` (package function), `(*QRCode).Encode` (image method) and `New` (option handling) are not part of the
functional model: the model starts at `newQR` / `newFromKanji` and at `EncodeToBitmap`.  What the theorems about
`EncodeToBitmap` (accepted exactly when valid, never a panic) and `New` say about these wrappers rests on HOW they
reach the modelled functions: the package-level `Encode` is `New` followed by the image method, the image method
draws through the validating `EncodeToBitmap` (not through an unexported drawing function), `New` dispatches to
`newFromKanji` / `newQR` after the level check.  This call structure (the functions and methods DECLARED IN THE PACKAGE that each wrapper calls, by bare name, in order
of first appearance; local variable names and the third-party rendering calls may change freely) is
regenerated from the Go AST on every run and pinned here: a wrapper that stops going through the validating entry
point breaks this obligation, and the check then looks for a failing input with the `*.encimg` / `render` /
`*.new` lines, which run the wrappers themselves.
-/
namespace QRV.Props.C08

theorem entry_calls_pinned : Gen.Shape.entryCalls = [".:Encode -> New Encode",
  ".:New -> newEncodeOptions IsValid newFromKanji newQR",
  ".:QRCode.Encode -> IsValid newEncodeOptions EncodeToBitmap",
  "microqr:Encode -> New Encode",
  "microqr:New -> newEncodeOptions newFromKanji newQR",
  "microqr:QRCode.Encode -> newEncodeOptions EncodeToBitmap",
  "rmqr:Encode -> New Encode",
  "rmqr:New -> newEncodeOptions IsValid newFromKanji newQR",
  "rmqr:QRCode.Encode -> IsValid newEncodeOptions EncodeToBitmap"] := rfl

end QRV.Props.C08
