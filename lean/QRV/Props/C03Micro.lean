import QRV.Props.C03QR
import QRV.Props.C01Micro
import QRV.Lemmas.C03MicroLift
/-
C03 — Micro QR, whole symbols: a bitmap that has the clean symbol's function modules (so the format
information stays readable) and whose data modules carry - along the module walk, under the symbol's
mask pattern - a codeword sequence (one Reed-Solomon block) that differs from the conformant one in
at most the rated number of codewords, decodes to the original description.  `slotsOf v l` lists,
for stream bit k, the module that carries it (`some (x, y)`) or `none` for the four stream bits that
no module carries (M1/M3: the final data codeword has 4 bits; the decoder reads them as zero, and so
must the damaged sequence).  M1 has rated capacity 0 (error detection only).
-/
namespace QRV.Props.C03
open QRV QRV.Model QRV.Model.Sym QRV.Model.Bitmap QRV.Spec.Valid QRV.Spec.Bits QRV.Lemmas.MRT

theorem micro_corrects_rated_damage (q : QRCode) (hv : Micro.Valid q) (hne : NonEmptySegments q)
    (img : Image) (m : Nat)
    (henc : Model.Micro.encodeToBitmap q = .ok img) (hm : m < 4)
    (hmask : Model.Micro.decodeBitmap img = .ok { q with mask := (m : Int) })
    (buf : Bits.Buffer) (hbuf : Model.Micro.encodeSegments q {} = .ok buf)
    (sl : List (Option (Int × Int)))
    (hsl : slotsOf q.version.toNat q.level.toNat = some sl)
    (img' : Image) (hreg : C18.Regular img' (9 + 2 * q.version.toNat) (9 + 2 * q.version.toNat))
    (hfun : ∀ x y : Nat, x < 9 + 2 * q.version.toNat → y < 9 + 2 * q.version.toNat →
      usedFn q.version.toNat (x : Int) (y : Int) = true → C18.px img' x y = C18.px img x y)
    (cw' : List Nat) (hlen : cw'.length = buf.buf.size) (hbytes : ∀ c ∈ cw', c < 256)
    (hcarry : ∀ k (hk : k < sl.length),
      match sl[k] with
      | some (x, y) => C18.px img' x.toNat y.toNat =
          ((unpack cw')[k]?.getD false ^^ Spec.Patterns.Micro.maskCond m y.toNat x.toNat)
      | none => (unpack cw')[k]?.getD false = false)
    (hdam : C14.dist buf.buf.toList cw' ≤
      (((capOf q.version.toNat q.level.toNat).blocks.head?.map (·.maxError)).getD 0)) :
    Model.Micro.decodeBitmap img' = .ok { q with mask := (m : Int) } := by
  have _ := hm  -- implied by `hmask`
  obtain ⟨v, l, hqv, hql, hp, hs, hfit⟩ := valid_fields q hv
  obtain ⟨version, level, mask, segments⟩ := q
  simp only at hqv hql hs hfit
  subst hqv hql
  obtain ⟨hm1, hm3⟩ := hv.mask
  simp only [Int.toNat_natCast] at hsl hreg hfun hdam
  exact corrects_rated_damage_nat v l mask segments hp hs hfit hne hm1 hm3 img m henc hmask buf hbuf sl hsl
    img' hreg hfun cw' hlen hbytes hcarry hdam

/-! ## non-vacuity -/

/-- for every valid description with non-empty segments the hypotheses of
`micro_corrects_rated_damage` are jointly satisfiable with zero damage: `img' = img`,
`cw' = buf.buf.toList` (so the clean symbol itself carries, under its mask, the conformant codeword
sequence along the slots, and the stream bits no module carries are zero in it) -/
theorem micro_hypotheses_satisfiable (q : QRCode) (hv : Micro.Valid q) (hne : NonEmptySegments q) :
    ∃ (img : Image) (m : Nat) (buf : Bits.Buffer) (sl : List (Option (Int × Int))),
      Model.Micro.encodeToBitmap q = .ok img ∧ m < 4 ∧
      Model.Micro.decodeBitmap img = .ok { q with mask := (m : Int) } ∧
      Model.Micro.encodeSegments q {} = .ok buf ∧
      slotsOf q.version.toNat q.level.toNat = some sl ∧
      C18.Regular img (9 + 2 * q.version.toNat) (9 + 2 * q.version.toNat) ∧
      buf.buf.toList.length = buf.buf.size ∧ (∀ c ∈ buf.buf.toList, c < 256) ∧
      (∀ k (hk : k < sl.length),
        match sl[k] with
        | some (x, y) => C18.px img x.toNat y.toNat =
            ((unpack buf.buf.toList)[k]?.getD false ^^ Spec.Patterns.Micro.maskCond m y.toNat x.toNat)
        | none => (unpack buf.buf.toList)[k]?.getD false = false) ∧
      C14.dist buf.buf.toList buf.buf.toList = 0 := by
  obtain ⟨v, l, hqv, hql, hp, hs, hfit⟩ := valid_fields q hv
  obtain ⟨version, level, mask, segments⟩ := q
  simp only at hqv hql hs hfit
  subst hqv hql
  obtain ⟨hm1, hm3⟩ := hv.mask
  obtain ⟨f, m, c, data, fbuf, sl, img4, -, hm4, -, -, hE, -, -, -, hfb, hsl, -, -, henc, hr4, -, hcarry, -, hdec⟩ :=
    roundtrip_exposed v l mask segments hp hs hfit hne hm1 hm3
  simp only [Int.toNat_natCast]
  exact ⟨img4, m, fbuf, sl, henc, hm4, hdec, hE, hsl, hr4, Array.length_toList, hfb, hcarry,
    QRV.Lemmas.RT.dist_self _⟩

/-- the theorem applied to that instance (its conclusion then restates `hmask`; the point is that
all hypotheses hold together) -/
example (q : QRCode) (hv : Micro.Valid q) (hne : NonEmptySegments q) :
    ∃ (img : Image) (m : Nat), Model.Micro.encodeToBitmap q = .ok img ∧
      Model.Micro.decodeBitmap img = .ok { q with mask := (m : Int) } := by
  obtain ⟨img, m, buf, sl, henc, hm, hmask, hbuf, hsl, hreg, hlen, hbytes, hcarry, hzero⟩ :=
    micro_hypotheses_satisfiable q hv hne
  exact ⟨img, m, henc, micro_corrects_rated_damage q hv hne img m henc hm hmask buf hbuf sl hsl
    img hreg (fun _ _ _ _ _ => rfl) buf.buf.toList hlen hbytes hcarry
    (by rw [hzero]; exact Nat.zero_le _)⟩

/-- the table fact used: on each of the eight legal (version, level) pairs the rated capacity of the
single block is at most floor(correction / 2) (M1: 0 of 2 correction codewords, detection only) -/
theorem micro_rated_le_half (v l : Nat) (hp : (v, l) ∈ pairs) :
    (((capOf v l).blocks.head?.map (·.maxError)).getD 0) ≤ (capOf v l).correction / 2 := by
  obtain ⟨b, hb, -, -, hm, -⟩ := block_facts v l hp
  rw [hb]
  exact hm

end QRV.Props.C03
