import QRV.Props.C03QR
import QRV.Props.C01RMQR
import QRV.Lemmas.C03RMQRLift
/-
C03 — rMQR, whole symbols: a bitmap that has the clean symbol's function modules (so the version and
level information stays readable) and whose data modules carry - along the module walk, under the
fixed mask pattern, in the standard's block interleaving - blocks that each differ from the
conformant block in at most the rated number of codewords, decodes to the original description.
For the 11 versions whose walk offers fewer modules than 8 * total codewords (finding D18) the last
codeword is not fully carried by ANY bitmap; the theorem covers them too (the rated capacity of the
last block leaves room for that one extra wrong codeword: kernel-evaluated on the regenerated rows).
-/
namespace QRV.Props.C03
open QRV QRV.Model QRV.Model.Sym QRV.Model.Bitmap QRV.Spec.Valid QRV.Spec.Bits QRV.Lemmas.RR
open QRV.Lemmas.RT (ilvList sizesOf)

theorem rmqr_corrects_rated_damage (q : QRCode) (hv : RMQR.Valid q) (img : Image)
    (henc : Model.RMQR.encodeToBitmap q = .ok img)
    (cap : Gen.GCap) (hcap : RMQR.row q.version.toNat q.level.toNat = some cap)
    (buf : Bits.Buffer) (hbuf : Model.RMQR.encodeSegments q {} = .ok buf)
    (blks : List (List Nat × List Nat)) (hblks : splitBlocks cap.blocks buf.buf.toList = .ok blks)
    (cs : List (Int × Int))
    (hcs : walk (usedFn q.version.toNat) ((H q.version.toNat : Int) - 1)
      (fuelOf ((W q.version.toNat : Int) - 1) ((H q.version.toNat : Int) - 1))
      (start ((W q.version.toNat : Int) - 1) ((H q.version.toNat : Int) - 1)) = some cs)
    (img' : Image) (hreg : C18.Regular img' (W q.version.toNat) (H q.version.toNat))
    (hfun : ∀ x y : Nat, x < W q.version.toNat → y < H q.version.toNat →
      usedFn q.version.toNat (x : Int) (y : Int) = true → C18.px img' x y = C18.px img x y)
    (blks' : List (List Nat × List Nat))
    (hshape : blks'.map (fun b => (b.1.length, b.2.length)) = sizesOf cap.blocks)
    (hbytes : ∀ b ∈ blks', (∀ x ∈ b.1, x < 256) ∧ ∀ x ∈ b.2, x < 256)
    (hcarry : ∀ k (_ : k < 8 * cap.total) (hk' : k < cs.length),
      C18.px img' (cs[k]).1.toNat (cs[k]).2.toNat =
        ((unpack (ilvList blks'))[k]?.getD false ^^
          decide (((cs[k]).2.toNat / 2 + (cs[k]).1.toNat / 3) % 2 = 0)))
    (hdam : ∀ j (hj : j < blks.length) (hj' : j < blks'.length),
      C14.dist (blks[j].1 ++ blks[j].2) (blks'[j].1 ++ blks'[j].2) ≤ (ratedOf cap.blocks)[j]?.getD 0) :
    Model.RMQR.decodeBitmap img' = .ok q := by
  obtain ⟨version, level, mask, segments⟩ := q
  obtain ⟨v, rfl⟩ := Int.eq_ofNat_of_zero_le (show 0 ≤ version from hv.version.1)
  obtain ⟨l, rfl⟩ := Int.eq_ofNat_of_zero_le (show 0 ≤ level from hv.level.1)
  obtain rfl : mask = 0 := hv.mask
  simp only [Int.toNat_natCast] at hcap hcs hreg hfun
  exact corrects_nat v l segments hv img henc cap hcap buf hbuf blks hblks cs hcs
    img' hreg hfun blks' hshape hbytes hcarry hdam

/-! ## the side condition of the short walks (finding D18) -/

/-- In a version whose module walk offers fewer than 8 * total modules, NO bitmap carries the last
codeword - the last correction codeword of the last block - in full: the decoder reads its missing
low bits as zero, so the last block may hold one more wrong codeword than the damage put there.  The
theorem above covers these versions because, in every capacity row of such a version, the rated
number of the last block is at least one below floor(parity / 2) (kernel-evaluated on the regenerated
rows, shortness computed from the walk itself). -/
theorem rmqr_short_walk_room (v : Nat) (hv : v < 32) (cs : List (Int × Int))
    (hcs : walk (usedFn v) ((H v : Int) - 1) (fuelOf ((W v : Int) - 1) ((H v : Int) - 1))
      (start ((W v : Int) - 1) ((H v : Int) - 1)) = some cs)
    (cap : Gen.GCap) (hcap : cap ∈ Gen.RMQR.capacityTable[v]?.getD []) (hshort : cs.length < 8 * cap.total) :
    ∃ s, (sizesOf cap.blocks)[(sizesOf cap.blocks).length - 1]? = some s ∧
      (ratedOf cap.blocks)[(sizesOf cap.blocks).length - 1]?.getD 0 + 1 ≤ s.2 / 2 := by
  have h := short_room v hv cs hcs cap hcap hshort
  unfold lastRoom at h
  split at h
  · rename_i s hs
    rw [decide_eq_true_eq] at h
    exact ⟨s, hs, h⟩
  · cases h

/-- there are 11 such versions (cf. `C01.rmqr_walk_deficits`), and the room is a genuine restriction
of the table: some (fully carried) rows do not have it -/
theorem rmqr_short_walk_rows :
    ((List.range 32).filter fun v =>
      match countV v with
      | some c => (Gen.RMQR.capacityTable[v]?.getD []).any fun cap => decide (c < 8 * cap.total)
      | none => false).length = 11 ∧
    ((List.range 32).any fun v => (Gen.RMQR.capacityTable[v]?.getD []).any fun cap => !lastRoom cap) = true :=
  ⟨short_rows_exist, lastRoom_not_all⟩

/-! ## non-vacuity -/

/-- for every valid description the hypotheses of `rmqr_corrects_rated_damage` are jointly
satisfiable with zero damage: `img' = img`, `blks' = blks` (so the clean symbol itself carries, under
the mask pattern, the interleaved conformant blocks along the walk, as far as the walk goes) -/
theorem rmqr_hypotheses_satisfiable (q : QRCode) (hv : RMQR.Valid q) :
    ∃ (img : Image) (cap : Gen.GCap) (buf : Bits.Buffer) (blks : List (List Nat × List Nat)) (cs : List (Int × Int)),
      Model.RMQR.encodeToBitmap q = .ok img ∧
      RMQR.row q.version.toNat q.level.toNat = some cap ∧
      Model.RMQR.encodeSegments q {} = .ok buf ∧ splitBlocks cap.blocks buf.buf.toList = .ok blks ∧
      walk (usedFn q.version.toNat) ((H q.version.toNat : Int) - 1)
        (fuelOf ((W q.version.toNat : Int) - 1) ((H q.version.toNat : Int) - 1))
        (start ((W q.version.toNat : Int) - 1) ((H q.version.toNat : Int) - 1)) = some cs ∧
      C18.Regular img (W q.version.toNat) (H q.version.toNat) ∧
      blks.map (fun b => (b.1.length, b.2.length)) = sizesOf cap.blocks ∧
      (∀ b ∈ blks, (∀ x ∈ b.1, x < 256) ∧ ∀ x ∈ b.2, x < 256) ∧
      (∀ k (_ : k < 8 * cap.total) (hk' : k < cs.length),
        C18.px img (cs[k]).1.toNat (cs[k]).2.toNat =
          ((unpack (ilvList blks))[k]?.getD false ^^
            decide (((cs[k]).2.toNat / 2 + (cs[k]).1.toNat / 3) % 2 = 0))) ∧
      (∀ j (_ : j < blks.length), C14.dist (blks[j].1 ++ blks[j].2) (blks[j].1 ++ blks[j].2) = 0) := by
  obtain ⟨version, level, mask, segments⟩ := q
  obtain ⟨v, rfl⟩ := Int.eq_ofNat_of_zero_le (show 0 ≤ version from hv.version.1)
  obtain ⟨l, rfl⟩ := Int.eq_ofNat_of_zero_le (show 0 ≤ level from hv.level.1)
  obtain rfl : mask = 0 := hv.mask
  obtain ⟨img, ef, henc, hreg, -, -, cap, buf, blks, cs, hcap, hbuf, hblks, hcs, hshape, hbytes, hcarry⟩ :=
    exposed v l segments hv
  simp only [Int.toNat_natCast]
  exact ⟨img, cap, buf, blks, cs, henc, hcap, hbuf, hblks, hcs, hreg, hshape, hbytes, hcarry,
    fun j _ => QRV.Lemmas.RT.dist_self _⟩

/-- the theorem applied to that instance: all hypotheses hold together, and the conclusion is the
round trip C01 -/
example (q : QRCode) (hv : RMQR.Valid q) :
    ∃ img, Model.RMQR.encodeToBitmap q = .ok img ∧ Model.RMQR.decodeBitmap img = .ok q := by
  obtain ⟨img, cap, buf, blks, cs, henc, hcap, hbuf, hblks, hcs, hreg, hshape, hbytes, hcarry, hzero⟩ :=
    rmqr_hypotheses_satisfiable q hv
  exact ⟨img, henc, rmqr_corrects_rated_damage q hv img henc cap hcap buf hbuf blks hblks cs hcs
    img hreg (fun _ _ _ _ _ => rfl) blks hshape hbytes hcarry
    (fun j hj _ => by rw [hzero j hj]; exact Nat.zero_le _)⟩

end QRV.Props.C03
