import QRV.Props.C05Ext
import QRV.Lemmas.NewRMQRValid
/-
C05, rMQR `New` on the empty payload (after the repair: model flag `Model.RMQR.NEW_EMPTY_USES_PRIORITY := true`;
the pinned source returned R7x43 whatever the priority although R11x27 is narrower): the version is the answer of
`calcVersion` on the empty segment list, which every version holds, so it has the least height / width of all
32 versions (`C05.rmqr_calcVersion_least`).
-/
namespace QRV.Props.C05
open QRV QRV.Model QRV.Model.Sym QRV.Lemmas.CalcVersion

/-- rMQR `New` on the empty payload returns a version of least height / least width for those priorities (the first entry of the sorted order list) -/
theorem rmqr_new_empty_least (level prio : Nat) (hl : level < 2) (hp : prio = 1 ∨ prio = 2) (kanji : Bool) (q : QRCode)
    (h : Model.RMQR.new (level : Int) (prio : Int) kanji [] = .ok q) :
    q.segments = [] ∧ ∀ v' : Nat, v' < 32 →
      (if prio = 1 then Spec.Patterns.RMQR.height q.version.toNat ≤ Spec.Patterns.RMQR.height v'
       else Spec.Patterns.RMQR.width q.version.toNat ≤ Spec.Patterns.RMQR.width v') := by
  obtain ⟨_, hcase⟩ := Lemmas.NewRMQRValid.new_cases (level : Int) (prio : Int) kanji [] q h
  rcases hcase with ⟨_, v, hv, rfl⟩ | ⟨hne, _⟩
  · refine ⟨rfl, fun v' hv' => ?_⟩
    exact (rmqr_calcVersion_least level prio hl hp [] v hv).2 v' hv' (Lemmas.NewRMQRValid.rmFits_nil level v')
  · exact absurd rfl hne

end QRV.Props.C05
