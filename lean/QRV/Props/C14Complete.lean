import QRV.Props.C14
import QRV.Lemmas.RSCompleteMathlibChien
/-
C14, completeness (Sugiyama): the decoder restores every word within floor(n/2) of a codeword of
length ≤ 255 to exactly that codeword; and the code has minimum distance n + 1.

The algebra (key equation, uniqueness of the Euclidean solution, Forney, Vandermonde) is done in
`Polynomial F` over a Mathlib `Field` instance for the model's GF(256)
(`QRV/Lemmas/RSCompleteMathlib*.lean`); the model files are untouched.
-/
namespace QRV.Props.C14
open QRV QRV.Model QRV.Model.GF QRV.Model.RS QRV.Lemmas.RS QRV.Lemmas.RSC

/-- (B) minimum distance: two distinct codewords of the same length ≤ 255 differ in at least
n + 1 positions -/
theorem code_min_distance (n : Nat) (a b : List Nat) (hn : n ≤ 255) (ha : Bytes a) (hb : Bytes b)
    (hlen : a.length = b.length) (hL : a.length ≤ 255) (hca : Codeword n a) (hcb : Codeword n b)
    (hne : a ≠ b) : n + 1 ≤ dist a b :=
  min_distance ha hb hlen hL hn hca hcb hne

/-- reduction: a successful answer on a word within n/2 of a codeword is that codeword -/
theorem dec_ok_unique (n : Nat) (c r data' : List Nat) (hn : n ≤ 255) (hc : Bytes c) (hr : Bytes r)
    (hlen : c.length = r.length) (hL : c.length ≤ 255) (hcw : Codeword n c) (hd : dist c r ≤ n / 2)
    (h : RS.decode r n = .ok data') : data' = c := by
  obtain ⟨h1, h2, h3⟩ := dec_sound r data' hr n h
  have h4 := dec_distance r data' hr n h
  apply Eq.symm
  apply codewords_close_eq hc h2 (by rw [h1, hlen]) hL hn hcw h3
  -- triangle inequality through the count of differing coefficients
  have hlen' : r.length = data'.length := h1.symm
  rw [distL_eq_diffIdx c data' (by rw [hlen, hlen'])]
  have hd' : (diffIdx c r).length ≤ n / 2 := by rw [← distL_eq_diffIdx c r hlen]; exact hd
  have h4' : (diffIdx r data').length ≤ n / 2 := by rw [← distL_eq_diffIdx r data' hlen']; exact h4
  have hsub : ∀ i ∈ diffIdx c data', i ∈ diffIdx c r ++ diffIdx r data' := by
    intro i hi
    obtain ⟨hi1, hi2⟩ := mem_diffIdx.mp hi
    rw [List.mem_append]
    by_cases hcr : Poly.coefficient c i = Poly.coefficient r i
    · right; exact mem_diffIdx.mpr ⟨by omega, fun h => hi2 (hcr.trans h)⟩
    · left; exact mem_diffIdx.mpr ⟨hi1, hcr⟩
  have := (diffIdx_nodup c data').subperm hsub |>.length_le
  rw [List.length_append] at this
  omega

theorem dec_complete : dec_complete_statement := by
  intro n c r h2 h68 hc hr hlen hL hcw hd
  by_cases hs : ((syndromes r n).all (· == 0)) = true
  · have hz := (synd_all_iff r n).mp hs
    rw [decode_clean r n hz]
    have : c = r := codewords_close_eq hc hr hlen hL (by omega) hcw hz
      (Nat.le_trans hd (Nat.div_le_self n 2))
    rw [this]
  · rw [decode_late r n hs]
    exact decodeTail_restores hc hr hlen hL (by omega) (by omega) hcw hd

/-- the decoder never gives up on a correctable word: an error answer means that NO codeword of that
length (≤ 255) lies within floor(n/2) of the input (contrapositive of `dec_complete`) -/
theorem dec_err_far (n : Nat) (c r : List Nat) (msg : String) (h2 : 2 ≤ n) (h68 : n ≤ 68) (hc : Bytes c)
    (hr : Bytes r) (hlen : c.length = r.length) (hL : c.length ≤ 255) (hcw : Codeword n c)
    (h : RS.decode r n = .err msg) : n / 2 < dist c r := by
  apply Nat.lt_of_not_le
  intro hd
  have := dec_complete n c r h2 h68 hc hr hlen hL hcw hd
  rw [this] at h
  cases h

/-- the answer is a function of the nearest codeword only: two received words within floor(n/2) of
the same codeword decode to the same result -/
theorem dec_same_answer (n : Nat) (c r r' : List Nat) (h2 : 2 ≤ n) (h68 : n ≤ 68) (hc : Bytes c)
    (hr : Bytes r) (hr' : Bytes r') (hlen : c.length = r.length) (hlen' : c.length = r'.length)
    (hL : c.length ≤ 255) (hcw : Codeword n c) (hd : dist c r ≤ n / 2) (hd' : dist c r' ≤ n / 2) :
    RS.decode r n = RS.decode r' n := by
  rw [dec_complete n c r h2 h68 hc hr hlen hL hcw hd, dec_complete n c r' h2 h68 hc hr' hlen' hL hcw hd']

end QRV.Props.C14
