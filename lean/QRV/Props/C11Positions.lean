import QRV.Props.C11
import QRV.Spec.Symbol
import QRV.Spec.SymbolMicro
import QRV.Spec.SymbolRMQR
import QRV.Lemmas.MicroRTFormat
import QRV.Lemmas.FormatPositions
/-
C11 — the decoders read the format (version-and-level) information from the standard's modules:
the raw words that the nearest-codeword scans of C11 work on are assembled, bit by bit, from the
positions the declarative symbols (`Spec/Symbol*.lean`) assign to those bits.
-/
namespace QRV.Props.C11
open QRV QRV.Model QRV.Model.Bitmap QRV.Lemmas.BCH

/-- the word whose bit i (i < n) is the colour of module `pos i` -/
def wordAt (px : Nat → Nat → Bool) (pos : Nat → Nat × Nat) (n : Nat) : Nat :=
  (List.range n).foldl (fun acc i => if px (pos i).1 (pos i).2 then acc ||| (1 <<< i) else acc) 0

/-- QR: both raw words are read from the standard's positions of the 15 format bits -/
theorem qr_reads_standard_positions (img : Image) (n : Nat) (hr : C18.Regular img n n) (hn : 21 ≤ n) :
    qrReadRaws img = .ok
      (wordAt (C18.px img) (fun i => (Spec.Symbol.QR.formatPos n i).1) 15,
       wordAt (C18.px img) (fun i => (Spec.Symbol.QR.formatPos n i).2) 15) :=
  Lemmas.FmtPos.qrReadRaws_words img n hr hn

/-- Micro QR: the raw word is read from the standard's positions of the 15 format bits -/
theorem micro_reads_standard_positions (img : Image) (n : Nat) (hr : C18.Regular img n n) (hn : 11 ≤ n) :
    ∃ raw, Lemmas.MRT.readRawM img = .ok raw ∧
      ∀ i, i < 15 → ∀ x y, Spec.Symbol.Micro.formatBitAt x y = some i → (i = 7 → x = 8 ∧ y = 8) →
        raw.testBit i = C18.px img x y :=
  ⟨_, Lemmas.FmtPos.readRawM_word img n hr hn, fun i hi x y h _ => Lemmas.FmtPos.micro_positions img i x y hi h⟩

/-- rMQR: the two raw words are read from the standard's positions of the 18 bits of each copy -/
theorem rmqr_reads_standard_positions (img : Image) (w h : Nat) (hr : C18.Regular img w h) (hw : 27 ≤ w) (hh : 7 ≤ h) :
    ∃ raw1 raw2, rmqrRead1 img = .ok raw1 ∧ rmqrRead2 img = .ok raw2 ∧
      (∀ i x y, Spec.Symbol.RMQR.formatBit1 x y = some i → raw1.testBit i = C18.px img x y) ∧
      (∀ i x y, x < w → y < h → Spec.Symbol.RMQR.formatBit2 w h x y = some i → raw2.testBit i = C18.px img x y) ∧
      raw1 < 2 ^ 18 ∧ raw2 < 2 ^ 18 :=
  ⟨_, _, Lemmas.FmtPos.rmqrRead1_word img w h hr hw hh, Lemmas.FmtPos.rmqrRead2_word img w h hr hw hh,
    fun i x y hb => Lemmas.FmtPos.rmqr_positions1 img i x y hb,
    fun i x y _ _ hb => Lemmas.FmtPos.rmqr_positions2 img w h i x y hw hh hb,
    Lemmas.FmtPos.wordOf_lt _ _, Lemmas.FmtPos.wordOf_lt _ _⟩

end QRV.Props.C11
