import QRV.Props.C06
import QRV.Props.C07
import QRV.Lemmas.DecRMQR2
/-
C06 / C07 — rMQR: the decoder is total on every well-formed bitmap, and what it returns is a
well-formed description whose version matches the bitmap's dimensions.
-/
namespace QRV.Props.C06
open QRV QRV.Model QRV.Model.Sym QRV.Model.Bitmap QRV.Spec.Valid

/-- everything `RMQR.Valid` asks except the capacity clause -/
structure WellFormedRMQR (q : QRCode) : Prop where
  version : 0 ≤ q.version ∧ q.version ≤ 31
  level : 0 ≤ q.level ∧ q.level ≤ 1
  mask : q.mask = 0
  segments : ∀ c, Spec.Valid.RMQR.row q.version.toNat q.level.toNat = some c → ∀ s ∈ q.segments,
    ∃ k, Spec.Valid.RMQR.kindOf s.mode = some k ∧ ValidData k s.data ∧
      count k s.data < 2 ^ Spec.Valid.RMQR.countBits k c

/-- rMQR: DecodeBitmap never panics and always terminates, for every bitmap whatsoever -/
theorem rmqr_decode_total (img : Image) (hw : WellFormed img) :
    (Model.RMQR.decodeBitmap img).isPanic = false :=
  (Lemmas.DecR.rmqr_decodeBitmap_sat img hw.wf).not_panic

/-- rMQR: what DecodeBitmap returns is well-formed and its version matches the dimensions -/
theorem rmqr_decoded_wf (img : Image) (hw : WellFormed img) (q : QRCode)
    (h : Model.RMQR.decodeBitmap img = .ok q) :
    WellFormedRMQR q ∧ img.dx = (Spec.Patterns.RMQR.width q.version.toNat : Nat) ∧
      img.dy = (Spec.Patterns.RMQR.height q.version.toNat : Nat) := by
  obtain ⟨v, l, hv, hl, ev, el, hm, hs, hx, hy⟩ := (Lemmas.DecR.rmqr_decodeBitmap_sat img hw.wf).of_ok h
  have tv : q.version.toNat = v := by omega
  have tl : q.level.toNat = l := by omega
  rw [tv]
  exact ⟨⟨by omega, by omega, hm, by rw [tv, tl]; exact hs⟩, hx, hy⟩

end QRV.Props.C06
