import QRV.Lemmas.GFField
import QRV.Lemmas.RSFinite
import QRV.Lemmas.RSEncode
/-
C13 — the Reed–Solomon encoder computes the systematic code over GF(256)/0x11D.

Stated about `QRV.Model.RS` (the 67 generated coders as data `Gen.RS.taps`, extracted by the
translator after matching every coder against the generator's template) with the field model of
C15.  α^i is `Spec.GF.pow2 i`.  Polynomials are big-endian byte lists, `RS.Poly.eval` is Horner
evaluation with the model's field operations.
-/
namespace QRV.Props.C13
open QRV QRV.Model QRV.Model.GF QRV.Model.RS QRV.Spec.GF QRV.Lemmas.GF

/-- the tap constants are the logarithms of the coefficients of
g_n(x) = (x - α^0)(x - α^1)…(x - α^(n-1)), computed from the definition (kernel evaluation, all n) -/
theorem taps_are_generator (n : Nat) (h2 : 2 ≤ n) (h68 : n ≤ 68) :
    RS.tapsOf n = (Spec.RS.genPoly n).tail.map GF.logT ∧ (Spec.RS.genPoly n).head? = some 1 ∧
    (Spec.RS.genPoly n).length = n + 1 :=
  QRV.Lemmas.RS.gen_facts n h2 h68

/-- `New n` panics exactly for n < 2 and n > 68 -/
theorem new_panics_iff (n : Int) : (RS.new n).isPanic = true ↔ (n < 2 ∨ n > 68) :=
  QRV.Lemmas.RS.new_panics_iff n

/-- `New n` starts from the empty message (all-zero register of n bytes); `Reset` returns there -/
theorem new_state (n : Nat) (h2 : 2 ≤ n) (h68 : n ≤ 68) :
    RS.new n = .ok (RS.tapsOf n, List.replicate n 0) ∧ (RS.tapsOf n).length = n :=
  ⟨QRV.Lemmas.RS.new_ok n h2 h68, (QRV.Lemmas.RS.taps_facts n h2 h68).1⟩

/-- the result does not depend on how the message is split across Write calls -/
theorem write_chunks (t c : List Nat) (chunks : List (List Nat)) :
    RS.write t c chunks.flatten = chunks.foldl (RS.write t) c :=
  QRV.Lemmas.RS.write_chunks t c chunks

/-- leading zero bytes do not change the register (hence not the parity) -/
theorem leading_zeros (n k : Nat) (h2 : 2 ≤ n) (h68 : n ≤ 68) (msg : List Nat) :
    RS.write (RS.tapsOf n) (List.replicate n 0) (List.replicate k 0 ++ msg) =
    RS.write (RS.tapsOf n) (List.replicate n 0) msg := by
  -- holds for every tap list and every n ≥ 1; `h68` is not needed
  have _ := h68
  exact QRV.Lemmas.RS.leading_zeros n k h2 _ msg

/-- LFSR invariant: at every root α^i (i < n) of g_n the register, read as a polynomial, evaluates
like the message written so far -/
theorem lfsr_invariant (n : Nat) (h2 : 2 ≤ n) (h68 : n ≤ 68) (msg : List Nat) (hm : ∀ b ∈ msg, b < 256)
    (i : Nat) (hi : i < n) :
    Poly.eval (RS.write (RS.tapsOf n) (List.replicate n 0) msg) (pow2 i) = Poly.eval msg (pow2 i) :=
  QRV.Lemmas.RS.lfsr_invariant n h2 h68 msg hm i hi

/-- message followed by parity evaluates to zero at α^0 … α^(n-1): the parity is the remainder of
message·x^n modulo g_n (it has n bytes, i.e. degree < n, and message·x^n + parity has all n roots
of g_n) -/
theorem parity_is_codeword (n : Nat) (h2 : 2 ≤ n) (h68 : n ≤ 68) (msg : List Nat) (hm : ∀ b ∈ msg, b < 256) :
    ∃ par, RS.parity n msg = .ok par ∧ par.length = n ∧ (∀ b ∈ par, b < 256) ∧
      ∀ i, i < n → Poly.eval (msg ++ par) (pow2 i) = 0 :=
  QRV.Lemmas.RS.parity_is_codeword n h2 h68 msg hm

/-- asking for the sum does not disturb the running state: `Sum` has a value receiver in every
coder (part of the template the translator matched), and in the model it is a pure function of the
state; writing on after a `Sum` therefore continues from the same register -/
theorem sum_is_pure : Gen.RS.templateMatched = true := QRV.Lemmas.RS.template_matched

/-! non-vacuity: the ISO/IEC 18004 Annex I example (1-M "01234567": 16 data, 10 parity codewords) -/
example : RS.parity 10 [0x10, 0x20, 0x0C, 0x56, 0x61, 0x80, 0xEC, 0x11, 0xEC, 0x11, 0xEC, 0x11, 0xEC, 0x11, 0xEC, 0x11]
    = .ok [0xA5, 0x24, 0xD4, 0xC1, 0xED, 0x36, 0xC7, 0x87, 0x2C, 0x55] := by decide +kernel

end QRV.Props.C13
