import QRV.Props.C05Ext
import QRV.Props.C04Ext
import QRV.Lemmas.NewOptimal
/-
C05 — QR `New` reports "too large" only when the payload could not be stored even as a single
byte-mode segment in version 40 at the requested level.
-/
namespace QRV.Props.C05
open QRV QRV.Model QRV.Model.Sym QRV.Spec.Valid

/-- if the payload fits version 40 at that level as ONE byte-mode segment (4 mode bits, 16 count bits,
8 bits per byte), `New` without kanji succeeds -/
theorem qr_new_not_too_large (level : Int) (hl : Model.QR.levelIsValid level = true) (data : List Nat)
    (hb : ∀ b ∈ data, b < 256)
    (hfit : 4 + 16 + 8 * data.length ≤ 8 * Spec.Tables.dataCodewords 40 level.toNat) :
    ∃ q, Model.QR.new level false data = .ok q := by
  exact Lemmas.NewOptimal.qr_new_not_too_large level hl data hb hfit

end QRV.Props.C05
