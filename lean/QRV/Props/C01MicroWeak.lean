import QRV.Props.C01Micro
import QRV.Props.C07Micro
import QRV.Lemmas.MicroRTFinalWeak
/-
C01 / C07 — Micro QR: the round trip under the weakest non-emptiness condition the decoder allows
(only an empty NUMERIC segment reads as the terminator; only M4 drops empty segments), so that every
description the decoder returns (C06Micro.WellFormedMicro.nonempty) that fits re-encodes to itself.
-/
namespace QRV.Props.C01
open QRV QRV.Model QRV.Model.Sym QRV.Spec.Valid

/-- no empty numeric segment, and in M4 no empty segment at all -/
def MicroParsable (q : QRCode) : Prop := ∀ s ∈ q.segments, s.data = [] → s.mode ≠ 0 ∧ q.version ≠ 4

theorem roundtrip_Micro_parsable (q : QRCode) (hv : Micro.Valid q) (hp : MicroParsable q) :
    ∃ img m, Model.Micro.encodeToBitmap q = .ok img ∧ (0 ≤ q.mask → m = q.mask) ∧ 0 ≤ m ∧ m ≤ 3 ∧
      Model.Micro.decodeBitmap img = .ok { q with mask := m } :=
  QRV.Lemmas.MRT.roundtrip_core_weak q hv hp

/-- F. the segment loop parses the stream of valid segments back, whatever tail with `2 v + 1` leading
zero bits (as many as there are) follows, provided no numeric segment is empty and (M4) no segment is -/
theorem segments_parse_Micro_weak (v : Nat) (h1 : 1 ≤ v) (h4 : v ≤ 4) (segs : List Segment)
    (hs : ∀ s ∈ segs, QRV.Lemmas.MRT.SegOK v s) (hne : ∀ s ∈ segs, s.data = [] → s.mode ≠ 0 ∧ v ≠ 4)
    (tail : List Bool) (ht : QRV.Lemmas.MRT.TailOK (QRV.Lemmas.MRT.termLen v) tail) (bytes : List Nat)
    (hb : ∀ x ∈ bytes, x < 256)
    (himg : QRV.Spec.Bits.unpack bytes = segs.flatMap (QRV.Lemmas.MRT.segStream v) ++ tail)
    (acc : Array Segment) (fuel : Nat) (hf : segs.length < fuel) :
    Model.Micro.segmentLoop (v : Int) fuel { buf := bytes.toArray } acc = .ok (acc.toList ++ segs) :=
  QRV.Lemmas.MRT.segments_parse_weak v h1 h4 segs hs hne tail ht bytes hb himg acc fuel hf

/-- the earlier hypothesis is a special case -/
theorem MicroParsable_of_nonEmpty (q : QRCode) (hne : NonEmptySegments q) : MicroParsable q :=
  fun s hs he => absurd he (hne s hs)

end QRV.Props.C01

namespace QRV.Props.C07
open QRV QRV.Model QRV.Model.Sym QRV.Model.Bitmap QRV.Spec.Valid

/-- Micro QR: EVERY decoded description that fits the symbol re-encodes and decodes to itself -/
theorem micro_decoded_reencodes_any (img : Image) (hw : C06.WellFormed img) (q : QRCode)
    (h : Model.Micro.decodeBitmap img = .ok q)
    (hfit : (q.segments.map fun s => Spec.Valid.Micro.segBits s q.version.toNat).sum ≤
      (Spec.Valid.Micro.dataBits q.version.toNat q.level.toNat).getD 0) :
    ∃ img', Model.Micro.encodeToBitmap q = .ok img' ∧ Model.Micro.decodeBitmap img' = .ok q := by
  obtain ⟨wf, _, _⟩ := C06.micro_decoded_wf img hw q h
  have hv : Spec.Valid.Micro.Valid q :=
    ⟨wf.version, wf.level, wf.pair, ⟨by have := wf.mask.1; omega, wf.mask.2⟩, wf.segments, hfit⟩
  obtain ⟨img', m, he, hm, _, _, hd⟩ := C01.roundtrip_Micro_parsable q hv wf.nonempty
  have : m = q.mask := hm wf.mask.1
  subst this
  exact ⟨img', he, by simpa using hd⟩

end QRV.Props.C07
