import QRV.Props.C07Overfull
import QRV.Props.C07OverfullExt
import QRV.Lemmas.DecOutput
/-
C06 — "... never allocates more than a small multiple of the bitmap's size", the part of it that is a statement about
values: whatever a decoder returns, the bytes of all returned segments together are fewer than the bitmap has modules.
(The intermediate allocations of the Go code - a clone of the bitmap, the de-interleaved blocks, the syndromes - are
bounded by the same quantities but are a property of the Go runtime, measured by the harness, not of the functional model.)
-/
namespace QRV.Props.C06
open QRV QRV.Model QRV.Model.Sym QRV.Model.Bitmap QRV.Spec.Valid

/-- total number of payload bytes of a description -/
def outputBytes (q : QRCode) : Nat := (q.segments.map fun s => s.data.length).sum

theorem qr_decoded_output_bounded (img : Image) (hw : C06.WellFormed img) (q : QRCode)
    (h : Model.QR.decodeBitmap img = .ok q) :
    outputBytes q < img.dx.toNat * img.dy.toNat := by
  exact Lemmas.DecOutput.qr_output_bounded img hw q h

theorem micro_decoded_output_bounded (img : Image) (hw : C06.WellFormed img) (q : QRCode)
    (h : Model.Micro.decodeBitmap img = .ok q) :
    outputBytes q < img.dx.toNat * img.dy.toNat := by
  exact Lemmas.DecOutput.micro_output_bounded img hw q h

theorem rmqr_decoded_output_bounded (img : Image) (hw : C06.WellFormed img) (q : QRCode)
    (h : Model.RMQR.decodeBitmap img = .ok q) :
    outputBytes q < img.dx.toNat * img.dy.toNat := by
  exact Lemmas.DecOutput.rmqr_output_bounded img hw q h

end QRV.Props.C06
