import QRV.Props.C08Ext
import QRV.Props.C01Micro
/-
C08 — Micro QR: the encoder accepts exactly the valid descriptions and never panics
(error-or-valid lemma C08Ext + acceptance of every valid description C01Micro).
-/
namespace QRV.Props.C08
open QRV QRV.Model QRV.Model.Sym QRV.Spec.Valid

/-- Micro QR: no value of Version, Level, Mask, no mode byte and no segment contents makes the encoder panic -/
theorem micro_encode_no_panic (q : QRCode) (hb : Bytes q) : (Model.Micro.encodeToBitmap q).isPanic = false := by
  rcases micro_encode_err_or_valid q hb with ⟨msg, he⟩ | hv
  · rw [he]; rfl
  · obtain ⟨img, h⟩ := C01.micro_valid_accepted q hv
    rw [h]; rfl

/-- Micro QR: accepted exactly when valid -/
theorem micro_encode_ok_iff_valid (q : QRCode) (hb : Bytes q) :
    (∃ img, Model.Micro.encodeToBitmap q = .ok img) ↔ Micro.Valid q := by
  constructor
  · rintro ⟨img, h⟩
    rcases micro_encode_err_or_valid q hb with ⟨msg, he⟩ | hv
    · rw [he] at h; cases h
    · exact hv
  · exact C01.micro_valid_accepted q

end QRV.Props.C08
