import QRV.Props.C05
import QRV.Lemmas.CalcVersionExt
/-
C05 — Micro QR: the model's segment length is the standard's; `calcVersion` returns the lowest
admissible version.  rMQR: the model's segment length is the standard's; with the height / width
priority the returned version has least height / width among the versions that hold the segments.
-/
namespace QRV.Props.C05
open QRV QRV.Model QRV.Model.Sym QRV.Spec.Valid

/-- Micro QR: the model's segment length is the standard's bit length whenever the mode exists in
the version, and `none` exactly when it does not -/
theorem micro_length_agrees (s : Segment) (v : Nat) (h1 : 1 ≤ v) (h4 : v ≤ 4) :
    Model.Micro.segLength s (v : Int) =
      (match Spec.Valid.Micro.kindOf s.mode with
       | some k => (Spec.Valid.Micro.countBits k v).map fun _ => Spec.Valid.Micro.segBits s v
       | none => none) := by
  exact Lemmas.CalcVersionExt.micro_length_agrees s v h1 h4

/-- a version holds the segments at a level indicator value: the pair exists, every mode exists in
the version, the standard's total bit length is within the data bits -/
def microFits (level : Nat) (segs : List Segment) (v : Nat) : Prop :=
  ∃ cap, Spec.Valid.Micro.dataBits v level = some cap ∧
    (∀ s ∈ segs, ∃ k cb, Spec.Valid.Micro.kindOf s.mode = some k ∧ Spec.Valid.Micro.countBits k v = some cb) ∧
    (segs.map fun s => Spec.Valid.Micro.segBits s v).sum ≤ cap

/-- Micro QR: `calcVersion` returns the lowest version that holds the segments at that level, and 0
only when none of M1-M4 does -/
theorem micro_calcVersion_minimal (level : Nat) (hl : level < 4) (segs : List Segment) :
    ∃ v : Nat, Model.Micro.calcVersion (level : Int) segs = .ok (v : Int) ∧ v ≤ 4 ∧
      (v ≠ 0 → microFits level segs v ∧ ∀ v', 1 ≤ v' → v' < v → ¬ microFits level segs v') ∧
      (v = 0 → ∀ v', 1 ≤ v' → v' ≤ 4 → ¬ microFits level segs v') := by
  exact Lemmas.CalcVersionExt.micro_calcVersion_minimal level hl segs

/-- rMQR: the model's segment length is the standard's bit length (kanji counted per character)
whenever the character count is representable, and `none` exactly otherwise -/
theorem rmqr_length_agrees (s : Segment) (v level : Nat) (c : Gen.GCap) (hc : Spec.Valid.RMQR.row v level = some c) :
    Model.RMQR.segLength s (v : Int) (level : Int) = .ok
      (match Spec.Valid.RMQR.kindOf s.mode with
       | some k => if count k s.data < 2 ^ Spec.Valid.RMQR.countBits k c then some (Spec.Valid.RMQR.segBits s c) else none
       | none => none) := by
  exact Lemmas.CalcVersionExt.rmqr_length_agrees s v level c hc

/-- rMQR, priority height (1) / width (2): the returned version has the least height / width among
all versions that hold the segments -/
theorem rmqr_calcVersion_least (level prio : Nat) (hl : level < 2) (hp : prio = 1 ∨ prio = 2) (segs : List Segment)
    (v : Int) (h : Model.RMQR.calcVersion (level : Int) (prio : Int) segs = .ok (some v)) :
    rmFits level segs v ∧ ∀ v' : Nat, v' < 32 → rmFits level segs (v' : Int) →
      (if prio = 1 then Spec.Patterns.RMQR.height v.toNat ≤ Spec.Patterns.RMQR.height v'
       else Spec.Patterns.RMQR.width v.toNat ≤ Spec.Patterns.RMQR.width v') := by
  exact Lemmas.CalcVersionExt.rmqr_calcVersion_least level prio hl hp segs v h

end QRV.Props.C05
