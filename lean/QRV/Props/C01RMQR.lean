import QRV.Props.C01
import QRV.Props.C03
import QRV.Lemmas.RRFinal
/-
C01 — rMQR R7x43-R17x139: the round trip is the identity.

Proof in `QRV/Lemmas/RR*.lean` (mirroring the QR proof `RT*.lean`; the block split / interleave /
de-interleave lemmas of `RTBlocks*.lean` are shared).  For the 11 versions of height >= 11 whose
walk offers fewer modules than 8 * total codewords (finding D18, `rmqr_walk_deficits` below: the
walk never reaches the data modules of column 1) the last codeword - the last correction codeword of
the last block - is emitted incomplete and read back with its missing low bits zero; the decoder's
Reed-Solomon step restores it (`C03.block_corrected`, i.e. `C14.dec_complete`).  The proof treats
all versions uniformly: the last codeword read back is arbitrary.
-/
namespace QRV.Props.C01
open QRV QRV.Model QRV.Model.Sym QRV.Spec.Valid

/-- rMQR: every valid description encodes, and the bitmap decodes to the same version, level and
segment list (rMQR has no mask choice; the description's mask field is 0) -/
theorem roundtrip_RMQR (q : QRCode) (hv : RMQR.Valid q) :
    ∃ img, Model.RMQR.encodeToBitmap q = .ok img ∧ Model.RMQR.decodeBitmap img = .ok q :=
  QRV.Lemmas.RR.roundtrip_core q hv

/-! ## components -/

section components
open QRV.Model.Bits QRV.Model.Bitmap QRV.Spec.Bits QRV.Lemmas.RR

/-- A. the data stream: segments (3-bit mode, count in the row's width, data), terminator 000 (only
when more than three bits are free), zero bits to the byte boundary, pad codewords EC/11 -/
theorem stream_layout_RMQR (q : QRCode) (hv : RMQR.Valid q) (cap : Gen.GCap)
    (hrow : RMQR.row q.version.toNat q.level.toNat = some cap)
    (hcap : capAt Gen.RMQR.capacityTable q.version q.level = .ok cap) (hok : capOK cap = true) :
    ∃ buf, Model.RMQR.encodeSegments q {} = .ok buf ∧ C16.Inv buf ∧ buf.len = 8 * cap.data ∧
      C16.abs buf = q.segments.flatMap (segStream cap) ++
        streamTail (8 * cap.data) (q.segments.flatMap (segStream cap)).length ∧
      buf.wrote = 0 ∧ buf.offset = 0 ∧ buf.read = 0 :=
  stream_layout q hv cap hrow hcap hok

/-- every (version, level) has a capacity row, and it passes the kernel-evaluated checks `capOK` -/
theorem capacity_row_RMQR (v l : Nat) (hv : v < 32) (hl : l < 2) :
    ∃ cap, capAt Gen.RMQR.capacityTable (v : Int) (l : Int) = .ok cap ∧
      RMQR.row v l = some cap ∧ cap ∈ Gen.RMQR.capacityTable[v]?.getD [] ∧ capOK cap = true :=
  capAt_valid v l hv hl

/-- A+F. encode the segments, parse the codewords: the segments -/
theorem stream_roundtrip_RMQR (q : QRCode) (hv : RMQR.Valid q) (cap : Gen.GCap)
    (hrow : RMQR.row q.version.toNat q.level.toNat = some cap)
    (hcap : capAt Gen.RMQR.capacityTable q.version q.level = .ok cap) (hok : capOK cap = true) :
    ∃ buf, Model.RMQR.encodeSegments q {} = .ok buf ∧ buf.buf.size = cap.data ∧
      (∀ b ∈ buf.buf.toList, b < 256) ∧
      Model.RMQR.segmentLoop cap.bitLength (cap.data * 8 + 8) { buf := buf.buf } #[] = .ok q.segments :=
  stream_roundtrip q hv cap hrow hcap hok

/-- B+E. blocks: split, interleave; replace the LAST codeword by any byte and append anything;
de-interleave, error-correct: the data -/
theorem blocks_roundtrip_RMQR (cap : Gen.GCap) (hshape : QRV.Lemmas.RT.capShapeOK cap = true)
    (h255 : ∀ bc ∈ cap.blocks, bc.total ≤ 255)
    (data : List Nat) (hlen : data.length = cap.data) (hb : ∀ b ∈ data, b < 256) :
    ∃ blks ibuf, splitBlocks cap.blocks data = .ok blks ∧ interleave blks {} = .ok ibuf ∧
      C16.Inv ibuf ∧ ibuf.wrote = 0 ∧ ibuf.offset = 0 ∧ ibuf.read = 0 ∧
      ibuf.buf.size = cap.total ∧ 1 ≤ cap.total ∧
      ∀ (y : Nat) (extra : List Nat), y < 256 →
        ∃ blks', deinterleave cap.blocks cap.data cap.total (ibuf.buf.toList.dropLast ++ y :: extra) = .ok blks' ∧
          rsLoop blks' = .ok data.toArray :=
  blocks_roundtrip_fix cap hshape h255 data hlen hb

/-- C. the placement loop writes bit k of the buffer at the k-th coordinate of the walk, until the bits
or the coordinates run out -/
theorem placeLoop_is_walk_RMQR (used : Image) (f : Int → Int → Bool) (hf : ∀ x y, used.binaryAt x y = .ok (f x y))
    (h : Int) (fuel : Nat) (s : Walk) (cs : List (Int × Int)) (buf : Buffer) (img : Image)
    (hw : walk f h fuel s = some cs) (hi : C16.Inv buf) (hr : buf.read < 8) :
    Model.RMQR.placeLoop used h fuel s buf img =
      (cs.zip (C17.unread buf)).foldlM (fun im p => im.setBinary p.1.1 p.1.2 p.2) img :=
  placeLoop_eq used f hf h fuel s cs buf img hw hi hr

/-- C. the reading loop appends the colours of the coordinates of the walk in order -/
theorem readLoop_is_walk_RMQR (used img : Image) (f g : Int → Int → Bool)
    (hf : ∀ x y, used.binaryAt x y = .ok (f x y)) (hg : ∀ x y, img.binaryAt x y = .ok (g x y))
    (h : Int) (fuel : Nat) (s : Walk) (cs : List (Int × Int)) (buf : Buffer)
    (hw : walk f h fuel s = some cs) (hi : C16.Inv buf) :
    ∃ buf', Model.RMQR.readLoop used img h fuel s buf = .ok buf' ∧ C16.Inv buf' ∧
      C16.abs buf' = C16.abs buf ++ cs.map (fun c => g c.1 c.2) :=
  readLoop_eq used img f g hf hg h fuel s cs buf hw hi

/-- C. the coordinates are pairwise distinct, inside the symbol without its border, and not
function modules -/
theorem walk_sound_RMQR (f : Int → Int → Bool) (w h : Int) (hw : 2 ≤ w) (hh : 6 ≤ h) (fuel : Nat)
    (cs : List (Int × Int)) (hwk : walk f h fuel (start w h) = some cs) :
    cs.Nodup ∧ ∀ c ∈ cs, 1 ≤ c.1 ∧ c.1 ≤ w - 1 ∧ 1 ≤ c.2 ∧ c.2 ≤ h - 1 ∧ f c.1 c.2 = false :=
  walk_sound f w h hw hh fuel cs hwk

/-- C. every version: the model's fuel suffices, and the walk offers more than 8 * (total - 1)
modules: every codeword but the last is placed in full, the last one at least in part -/
theorem walk_version_RMQR (v : Nat) (hv : v < 32) :
    ∃ cs, walk (usedFn v) ((H v : Int) - 1) (fuelOf ((W v : Int) - 1) ((H v : Int) - 1))
        (start ((W v : Int) - 1) ((H v : Int) - 1)) = some cs ∧ countV v = some cs.length ∧
      ∀ cap ∈ Gen.RMQR.capacityTable[v]?.getD [], 8 * cap.total < cs.length + 8 := by
  obtain ⟨-, -, -, cs, h1, h2⟩ := walk_version v hv
  obtain ⟨cs', h1', h3⟩ := walk_count v hv
  rw [h1] at h1'
  cases h1'
  exact ⟨cs, h1, h3, h2⟩

/-- finding D18, exactly: the versions whose walk (`countV`) offers fewer modules than 8 * total
codewords, each with the number of low bits of the last codeword that are never placed.  (A statement
about the pinned tables: it fails, rather than going stale, if they change.) -/
theorem rmqr_walk_deficits : deficits =
    [(12, 1), (17, 2), (21, 3), (22, 4), (23, 1), (26, 3), (27, 6), (28, 5), (29, 7), (30, 4), (31, 3)] :=
  deficits_eq

/-- D. the version/level word: both copies are written on function modules only; the first copy
holds the word XOR `fmtMask1` -/
theorem format_write_RMQR (v : Nat) (hv : v < 32) (img : Image) (hr : C18.Regular img (W v) (H v)) (ef : Nat) :
    ∃ img', QRV.Lemmas.RT.applyWrites (fmtWrites ((W v : Int) - 1) ((H v : Int) - 1) ef) img = .ok img' ∧
      C18.Regular img' (W v) (H v) ∧
      (∀ x y : Nat, x < W v → y < H v → usedFn v (x : Int) (y : Int) = false → C18.px img' x y = C18.px img x y) ∧
      (∀ i : Nat, i < 18 → C18.px img' (8 + i / 5) (1 + i % 5) = (ef ^^^ Model.RMQR.fmtMask1).testBit i) :=
  fmtWrites_spec v hv img hr ef

/-- D. reading the version/level word: a first copy holding table entry idx gives (idx % 32, idx / 32) -/
theorem format_roundtrip_RMQR (img : Image) (w h : Nat) (hr : C18.Regular img w h) (hw : 12 ≤ w) (hh : 6 ≤ h)
    (idx ef : Nat) (hidx : idx < 64) (hc : Gen.RMQR.encodedVersion[idx]? = some ef)
    (h1 : ∀ i : Nat, i < 18 → C18.px img (8 + i / 5) (1 + i % 5) = (ef ^^^ Model.RMQR.fmtMask1).testBit i) :
    Model.RMQR.decodeFormat img = .ok (((idx &&& 0x1f : Nat) : Int), (((idx >>> 5) &&& 1 : Nat) : Int)) :=
  decodeFormat_first img w h hr hw hh idx ef hidx hc h1

/-- D. base, used and mask bitmaps are regular images; the used bitmap answers `usedFn` -/
theorem version_images_RMQR (v : Nat) (hv : v < 32) :
    imgAt Model.RMQR.baseList (v : Int) = .ok (some (Image.ofGen (baseGen v))) ∧
    imgAt Model.RMQR.usedList (v : Int) = .ok (some (Image.ofGen (usedGen v))) ∧
    C18.Regular (Image.ofGen (baseGen v)) (W v) (H v) ∧
    C18.Regular (Image.ofGen (usedGen v)) (W v) (H v) ∧
    (∀ x y, (Image.ofGen (usedGen v)).binaryAt x y = .ok (usedFn v x y)) ∧
    C18.Regular Model.RMQR.precomputedMask 144 17 ∧ W v ≤ 144 ∧ H v ≤ 17 := by
  obtain ⟨h1, h2, h3, h4, h5⟩ := version_images v hv
  obtain ⟨-, h6, -, h7⟩ := sizes_ok v hv
  exact ⟨h1, h2, h3, h4, h5, mask_image, h6, h7⟩

end components

end QRV.Props.C01
