import QRV.Props.C05TooLarge
import QRV.Props.C04Ext2
import QRV.Lemmas.NewOptimalMicro
import QRV.Lemmas.NewOptimalRMQR
import QRV.Lemmas.NewKanjiTooLargeCex
/-
C05 — "too large" only when not even a single byte-mode segment fits the largest symbol of the level:
Micro QR (M4), rMQR (R17x139) without kanji — PROVED.  QR with kanji enabled: FALSE of the pinned source
(genuine defect D21, counterexample below), repaired in /repo (`fix:` New with kanji falls back to a single
byte-mode segment); for the repaired source it is the theorem `C05.qr_new_kanji_not_too_large`
(`Props/C05TooLargeKanji.lean`).
-/
namespace QRV.Props.C05
open QRV QRV.Model QRV.Model.Sym QRV.Spec.Valid

/-- Micro QR, kanji off: a payload that fits M4 at that level as one byte-mode segment (3 mode bits,
5 count bits, 8 bits per byte) is not refused -/
theorem micro_new_not_too_large (level : Nat) (cap : Nat) (hcap : Spec.Valid.Micro.dataBits 4 level = some cap)
    (data : List Nat) (hb : ∀ b ∈ data, b < 256)
    (hfit : 3 + 5 + 8 * data.length ≤ cap) :
    ∃ q, Model.Micro.new (level : Int) false data = .ok q := by
  exact Lemmas.NewOptimalMicro.micro_new_not_too_large level cap hcap data hb hfit

/-- rMQR, kanji off, any of the three priorities: a payload that fits R17x139 (version 31) at that
level as one byte-mode segment is not refused -/
theorem rmqr_new_not_too_large (level prio : Nat) (hl : level < 2) (hp : prio < 3) (c : Gen.GCap)
    (hc : Spec.Valid.RMQR.row 31 level = some c) (data : List Nat) (hb : ∀ b ∈ data, b < 256)
    (hfit : 3 + Spec.Valid.RMQR.countBits 2 c + 8 * data.length ≤ 8 * c.data) :
    ∃ q, Model.RMQR.new (level : Int) (prio : Int) false data = .ok q := by
  exact Lemmas.NewOptimalRMQR.rmqr_new_not_too_large level prio hl hp c hc data hb hfit

/-! QR with kanji enabled, BEFORE the repair (model flag `Model.QR.NEW_KANJI_BYTE_FALLBACK := false`) — the statement

    theorem qr_new_kanji_not_too_large (level : Int) (hl : Model.QR.levelIsValid level = true) (data : List Nat)
        (hb : ∀ b ∈ data, b < 256)
        (hfit : 4 + 16 + 8 * data.length ≤ 8 * Spec.Tables.dataCodewords 40 level.toNat) :
        ∃ q, Model.QR.new level true data = .ok q

was FALSE, at each of the four levels: `Lemmas.NewKanjiTooLargeCex.kanjiCex (dataCodewords 40 level)`
(1273 / 1663 / 2331 / 2953 bytes: kanji runs of 7 and 10 characters separated by single digits)
satisfies the hypotheses (`kanjiCex_hyps`, kernel), `Model.QR.new level false` returns version 40 on it,
and the unrepaired `Model.QR.new level true` answered "qrcode: data too large" (evaluation of the model; the pinned Go
library agreed, `qrcode.New(data, WithLevel(lv))` with the default `Kanji: true`).  Cause: the kanji
programme prices a one-digit numeric segment at 20/6 bit where the encoder writes 4 bits; the
non-kanji invariant (`Lemmas.NewOptimalGen`) has no analogue because kanji runs can be tuned (2- and
3-byte characters) to save just under what the headers around a one-digit segment cost.  See
`Lemmas/NewKanjiTooLargeCex.lean`.  What is proved here: the hypotheses hold for the payloads, and
already on 10 bytes the chosen segmentation is longer than one byte segment. -/

/-- the counterexample payloads satisfy the hypotheses of the (false) kanji statement -/
theorem qr_new_kanji_cex_hyps : (List.range 4).all (fun l =>
    let d := Lemmas.NewKanjiTooLargeCex.kanjiCex (Spec.Tables.dataCodewords 40 l)
    Model.QR.levelIsValid (l : Int) && d.all (fun b => decide (b < 256)) &&
      decide (4 + 16 + 8 * d.length ≤ 8 * Spec.Tables.dataCodewords 40 l)) = true := by
  exact Lemmas.NewKanjiTooLargeCex.kanjiCex_hyps

/-- "A日日αA" (10 bytes): the kanji programme's segmentation takes 101 bits at version 40, one byte
segment 100 -/
theorem qr_new_kanji_segmentation_longer_than_bytes :
    Lemmas.NewKanjiTooLargeCex.excessAtLeast
      ([0x41] ++ Lemmas.NewKanjiTooLargeCex.k3 ++ Lemmas.NewKanjiTooLargeCex.k3 ++ Lemmas.NewKanjiTooLargeCex.k2 ++ [0x41]) 1 = true := by
  exact Lemmas.NewKanjiTooLargeCex.kanji_segmentation_longer_than_bytes

end QRV.Props.C05
