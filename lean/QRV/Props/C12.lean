import QRV.Model.Render
/-
C12 — rendered images are a faithful enlargement of the module bitmap.

Only the size arithmetic and the quiet-zone copy of `Encode` are code of /repo; they are modelled in
`QRV.Model.Render` (module size as a rational snum/sden) and the statements below are about them.
The area-average resampler and the tone encoder belong to the go-imaging dependency: pixel purity
and between-ness are checked on the real output by `bin/check C12`, not proved (DESIGN.md, C12).
-/
namespace QRV.Props.C12
open QRV.Model.Render

/-- `ceilDiv a b` is the ceiling of a / b -/
theorem ceilDiv_spec (a b : Nat) (hb : 0 < b) :
    a ≤ ceilDiv a b * b ∧ (0 < a → (ceilDiv a b - 1) * b < a) := by
  unfold ceilDiv
  have h1 := Nat.div_add_mod (a + b - 1) b
  have h2 := Nat.mod_lt (a + b - 1) hb
  have h3 : b * ((a + b - 1) / b) = (a + b - 1) / b * b := Nat.mul_comm _ _
  constructor
  · omega
  · intro ha
    have hq : 0 < (a + b - 1) / b := Nat.div_pos (by omega) hb
    have : ((a + b - 1) / b - 1) * b = (a + b - 1) / b * b - b := by
      rw [Nat.sub_mul, Nat.one_mul]
    omega

/-- width = max(⌈(n + 2q)·s⌉, width): it is at least the requested width, at least (n+2q)·s, and it
is the smallest such integer -/
theorem width_spec (n q snum sden width : Nat) (hs : 0 < sden) :
    let W := outWidth n q snum sden width
    width ≤ W ∧ (n + 2 * q) * snum ≤ W * sden ∧
    ∀ W', width ≤ W' → (n + 2 * q) * snum ≤ W' * sden → W ≤ W' := by
  intro W
  have hc := ceilDiv_spec ((n + 2 * q) * snum) sden hs
  refine ⟨Nat.le_max_right _ _, ?_, ?_⟩
  · have : ceilDiv (srcSize n q * snum) sden ≤ W := Nat.le_max_left _ _
    calc (n + 2 * q) * snum ≤ ceilDiv ((n + 2 * q) * snum) sden * sden := hc.1
      _ ≤ W * sden := Nat.mul_le_mul_right _ this
  · intro W' hw hW'
    apply Nat.max_le.mpr
    refine ⟨?_, hw⟩
    show ceilDiv ((n + 2 * q) * snum) sden ≤ W'
    by_cases ha : (n + 2 * q) * snum = 0
    · have : ceilDiv ((n + 2 * q) * snum) sden = 0 := by
        unfold ceilDiv; rw [ha, Nat.zero_add]; exact Nat.div_eq_of_lt (by omega)
      omega
    · apply Classical.byContradiction
      intro hlt
      have hlt : W' < ceilDiv ((n + 2 * q) * snum) sden := Nat.lt_of_not_le hlt
      have h2 := hc.2 (Nat.pos_of_ne_zero ha)
      have : W' * sden ≤ (ceilDiv ((n + 2 * q) * snum) sden - 1) * sden :=
        Nat.mul_le_mul_right _ (by omega)
      omega

/-- a module size ≥ 1 never shrinks the symbol: every module gets at least one pixel column -/
theorem width_covers (n q snum sden width : Nat) (hs : 0 < sden) (h1 : sden ≤ snum) :
    n + 2 * q ≤ outWidth n q snum sden width := by
  have h := (width_spec n q snum sden width hs).2.1
  have : (n + 2 * q) * sden ≤ (n + 2 * q) * snum := Nat.mul_le_mul_left _ h1
  exact Nat.le_of_mul_le_mul_right (Nat.le_trans this h) hs

/-- rMQR: the height is scaled proportionally (ceiling of h·W/w) -/
theorem height_spec (nw nh q snum sden width : Nat) (hw : 0 < nw + 2 * q) :
    let W := outWidth nw q snum sden width
    let H := outHeight nw nh q snum sden width
    (nh + 2 * q) * W ≤ H * (nw + 2 * q) ∧ (0 < (nh + 2 * q) * W → (H - 1) * (nw + 2 * q) < (nh + 2 * q) * W) := by
  intro W H
  exact ceilDiv_spec _ _ hw

/-- square symbols get square images -/
theorem height_square (n q snum sden width : Nat) (hw : 0 < n + 2 * q) :
    outHeight n n q snum sden width = outWidth n q snum sden width := by
  unfold outHeight ceilDiv srcSize
  have h1 : (n + 2 * q) * outWidth n q snum sden width + (n + 2 * q) - 1 =
      (n + 2 * q - 1) + (n + 2 * q) * outWidth n q snum sden width := by omega
  rw [h1, Nat.add_mul_div_left _ _ hw, Nat.div_eq_of_lt (by omega), Nat.zero_add]

/-- the intermediate image is the symbol surrounded by q white modules -/
theorem src_inside (sym : Nat → Nat → Bool) (nw nh q x y : Nat) (hx : x < nw) (hy : y < nh) :
    srcPixel sym nw nh q (x + q) (y + q) = sym x y := by
  unfold srcPixel
  have : q ≤ x + q ∧ x + q < q + nw ∧ q ≤ y + q ∧ y + q < q + nh := by omega
  simp [this]

theorem src_quiet_zone (sym : Nat → Nat → Bool) (nw nh q x y : Nat)
    (h : x < q ∨ q + nw ≤ x ∨ y < q ∨ q + nh ≤ y) : srcPixel sym nw nh q x y = false := by
  unfold srcPixel
  have : ¬ (q ≤ x ∧ x < q + nw ∧ q ≤ y ∧ y < q + nh) := by omega
  simp [this]

/-! non-vacuity: a version 1 symbol, quiet zone 4, module size 3/2 -/
example : outWidth 21 4 3 2 0 = 44 ∧ outHeight 21 21 4 3 2 0 = 44 ∧ outWidth 21 4 1 1 100 = 100 := by decide

end QRV.Props.C12
