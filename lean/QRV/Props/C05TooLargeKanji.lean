import QRV.Props.C05TooLarge
import QRV.Lemmas.NewKanjiFallback
/-
C05 — QR `New` with kanji enabled (the default), after the repair of `newFromKanji`
(`Model.QR.NEW_KANJI_BYTE_FALLBACK`): "too large" only when the payload could not be stored even as a
single byte-mode segment in version 40 at the requested level.
-/
namespace QRV.Props.C05
open QRV QRV.Model QRV.Model.Sym QRV.Spec.Valid

/-- QR `New` with kanji enabled answers "too large" only when the payload does not fit version 40 at that level even as a single byte-mode segment.

This is what the byte-mode fallback buys.  For the UNREPAIRED source (`Model.QR.NEW_KANJI_BYTE_FALLBACK := false`) the
statement is false: the kanji-aware mode selection minimises a cost in sixths of a bit while every segment is
rounded up to whole bits, so for certain payloads that fill version 40 exactly as one byte-mode segment (a witness
has 2,953 bytes at level L) the selected segments are a few bits too long for every version and the pinned `New`
answers "data too large".  The refutation is not proved here (it would evaluate the mode selection on the
2,953-byte witness); with the flag off this theorem's proof fails in the branch `version = 0`. -/
theorem qr_new_kanji_not_too_large (level : Int) (hl : Model.QR.levelIsValid level = true) (data : List Nat)
    (hb : ∀ b ∈ data, b < 256)
    (hfit : 4 + 16 + 8 * data.length ≤ 8 * Spec.Tables.dataCodewords 40 level.toNat) :
    ∃ q, Model.QR.new level true data = .ok q := by
  exact Lemmas.NewKanjiFallback.qr_new_kanji_not_too_large level hl data hb hfit

end QRV.Props.C05
