import QRV.Props.C06Micro
import QRV.Props.C01Micro
/-
C07 — Micro QR: a decoded description that fits the symbol re-encodes and decodes to itself
(well-formedness C06Micro.micro_decoded_wf + round trip C01Micro.roundtrip_Micro).  Descriptions that
do not fit arise only from the recorded finding D16 (truncated final character, zero-extended).
The decoder never returns an empty numeric segment nor (M4) any empty segment; an empty
alphanumeric / byte / kanji segment of M2-M3 is outside `roundtrip_Micro`'s non-emptiness
hypothesis, so the theorem asks for non-empty segments.
-/
namespace QRV.Props.C07
open QRV QRV.Model QRV.Model.Sym QRV.Model.Bitmap QRV.Spec.Valid

theorem micro_decoded_reencodes (img : Image) (hw : C06.WellFormed img) (q : QRCode)
    (h : Model.Micro.decodeBitmap img = .ok q) (hne : NonEmptySegments q)
    (hfit : (q.segments.map fun s => Spec.Valid.Micro.segBits s q.version.toNat).sum ≤
      (Spec.Valid.Micro.dataBits q.version.toNat q.level.toNat).getD 0) :
    ∃ img', Model.Micro.encodeToBitmap q = .ok img' ∧ Model.Micro.decodeBitmap img' = .ok q := by
  obtain ⟨wf, _, _⟩ := C06.micro_decoded_wf img hw q h
  have hv : Spec.Valid.Micro.Valid q :=
    ⟨wf.version, wf.level, wf.pair, ⟨by have := wf.mask.1; omega, wf.mask.2⟩, wf.segments, hfit⟩
  obtain ⟨img', m, he, hm, _, _, hd⟩ := C01.roundtrip_Micro q hv hne
  have : m = q.mask := hm wf.mask.1
  subst this
  exact ⟨img', he, by simpa using hd⟩

end QRV.Props.C07
