import QRV.Props.C05TooLarge2
import QRV.Lemmas.NewKanjiCostMicro
import QRV.Lemmas.NewKanjiCostRMQR
/-
C05 — the "too large" clause for the kanji-aware mode selection of Micro QR and rMQR (`newFromKanji` of those
packages, which have NO byte-mode fallback): a payload that fits the largest symbol of the level as ONE byte-mode
segment is not refused.  Unlike the root package before its repair (defect D21) this holds, because these two
programmes charge the QR version-40 header widths (18 / 17 / 20 / 16 bits) while the real M4 / R17x139 headers are
9-12 bits shorter: every segment of the selected chain gains more from its cheaper real header than it can lose by
rounding (at most 2/3 bit), so the chain is never longer than the single byte segment it was preferred to.
-/
namespace QRV.Props.C05
open QRV QRV.Model QRV.Model.Sym QRV.Spec.Valid

/-- Micro QR, kanji on: a payload that fits M4 at that level as one byte-mode segment is not refused -/
theorem micro_new_kanji_not_too_large (level : Nat) (cap : Nat) (hcap : Spec.Valid.Micro.dataBits 4 level = some cap)
    (data : List Nat) (hb : ∀ b ∈ data, b < 256)
    (hfit : 3 + 5 + 8 * data.length ≤ cap) :
    ∃ q, Model.Micro.new (level : Int) true data = .ok q := by
  exact Lemmas.NewKanjiCostMicro.micro_new_kanji_not_too_large level cap hcap data hb hfit

/-- rMQR, kanji on, any of the three priorities: a payload that fits R17x139 (version 31) at that level as one
byte-mode segment is not refused -/
theorem rmqr_new_kanji_not_too_large (level prio : Nat) (hl : level < 2) (hp : prio < 3) (c : Gen.GCap)
    (hc : Spec.Valid.RMQR.row 31 level = some c) (data : List Nat) (hb : ∀ b ∈ data, b < 256)
    (hfit : 3 + Spec.Valid.RMQR.countBits 2 c + 8 * data.length ≤ 8 * c.data) :
    ∃ q, Model.RMQR.new (level : Int) (prio : Int) true data = .ok q := by
  exact Lemmas.NewKanjiCostRMQR.rmqr_new_kanji_not_too_large level prio hl hp c hc data hb hfit

end QRV.Props.C05
