import QRV.Props.C10Penalty
import QRV.Props.C01Micro
import QRV.Lemmas.C10FinQR
import QRV.Lemmas.C10FinMicro
/-
C10 — automatic masking, stated on the FINISHED symbols exactly as the property reads: with
Mask = auto the emitted symbol is one of the eight (four) symbols the encoder emits for the explicit
patterns, and it attains the minimum penalty N1 + N2 + N3 + N4 (the maximum edge score) among them,
the first such pattern winning; N1, N2, N3 and the edge score are the declarative features of
`Spec/Penalty.lean`, N4 is the model's double-precision expression.
-/
namespace QRV.Props.C10
open QRV QRV.Model QRV.Model.Sym QRV.Model.Bitmap QRV.Spec.Valid QRV.Spec.Penalty

/-- QR -/
theorem qr_auto_minimises_penalty_of_finished_symbols (q : QRCode) (hv : QR.Valid q) (hauto : q.mask = -1) :
    ∃ (img : Image) (m : Nat) (imgs : Nat → Image) (pen : Nat → Nat),
      Model.QR.encodeToBitmap q = .ok img ∧ m < 8 ∧ img = imgs m ∧
      (∀ j : Nat, j < 8 → Model.QR.encodeToBitmap { q with mask := (j : Int) } = .ok (imgs j)) ∧
      (∀ j, j < 8 → (imgs j).point = .ok (pen j)) ∧
      (∀ j, j < 8 → ∃ d, (imgs j).pointOnesCount = .ok d ∧
        pen j = n3 (C18.px (imgs j)) (17 + 4 * q.version.toNat) + n1 (C18.px (imgs j)) (17 + 4 * q.version.toNat) +
          n2 (C18.px (imgs j)) (17 + 4 * q.version.toNat) + d) ∧
      (∀ j, j < 8 → pen m ≤ pen j) ∧ (∀ j, j < m → pen m < pen j) :=
  Lemmas.C10F.qr_finished q hv hauto

/-- Micro QR -/
theorem micro_auto_maximises_edge_score_of_finished_symbols (q : QRCode) (hv : Micro.Valid q) (hauto : q.mask = -1) :
    ∃ (img : Image) (m : Nat) (imgs : Nat → Image),
      Model.Micro.encodeToBitmap q = .ok img ∧ m < 4 ∧ img = imgs m ∧
      (∀ j : Nat, j < 4 → Model.Micro.encodeToBitmap { q with mask := (j : Int) } = .ok (imgs j)) ∧
      (∀ j, j < 4 → microEdge (C18.px (imgs j)) (9 + 2 * q.version.toNat) ≤
        microEdge (C18.px (imgs m)) (9 + 2 * q.version.toNat)) ∧
      (∀ j, j < m → microEdge (C18.px (imgs j)) (9 + 2 * q.version.toNat) <
        microEdge (C18.px (imgs m)) (9 + 2 * q.version.toNat)) :=
  Lemmas.C10F.micro_finished q hv hauto

end QRV.Props.C10
