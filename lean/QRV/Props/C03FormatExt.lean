import QRV.Props.C03Micro
import QRV.Props.C03RMQR
import QRV.Props.C11Positions
import QRV.Lemmas.C03MicroFormat
import QRV.Lemmas.C03MicroFormatWords
import QRV.Lemmas.C03RMQRFormat
import QRV.Lemmas.C03RMQRFormatWords
/-
C03 — "... and the format information stays readable", Micro QR and rMQR (the QR case is `Props/C03Format.lean`):
the whole-symbol correction theorems of `Props/C03Micro.lean` / `Props/C03RMQR.lean` WITHOUT the hypothesis that the
damaged bitmap carries the clean symbol's function modules.  What is required instead: the raw format word(s) the
decoder reads from the damaged bitmap (`readRawM`; `rmqrRead1` / `rmqrRead2` - tied to the standard's module positions by
`C11.micro_reads_standard_positions` / `rmqr_reads_standard_positions`) are within two modules of those of the clean
symbol (Micro QR: its single copy; rMQR: the first copy, the second arbitrary - or the first copy three or more modules
from every code word and the second within two).
-/
namespace QRV.Props.C03
open QRV QRV.Model QRV.Model.Sym QRV.Model.Bitmap QRV.Spec.Valid QRV.Spec.Bits QRV.Spec.BCH

section Micro
open QRV.Lemmas.MRT

set_option linter.unusedVariables false in
/-- Micro QR M1-M4: rated damage of the data AND up to two wrong format modules; no hypothesis on any other function module -/
theorem micro_corrects_rated_damage_and_format_damage (q : QRCode) (hv : Micro.Valid q) (hne : NonEmptySegments q)
    (img : Image) (m : Nat)
    (henc : Model.Micro.encodeToBitmap q = .ok img) (hm : m < 4)
    (hmask : Model.Micro.decodeBitmap img = .ok { q with mask := (m : Int) })
    (buf : Bits.Buffer) (hbuf : Model.Micro.encodeSegments q {} = .ok buf)
    (sl : List (Option (Int × Int)))
    (hsl : slotsOf q.version.toNat q.level.toNat = some sl)
    (img' : Image) (hreg : C18.Regular img' (9 + 2 * q.version.toNat) (9 + 2 * q.version.toNat))
    (hfmt : ∃ raw' raw, readRawM img' = .ok raw' ∧ readRawM img = .ok raw ∧ hamming raw' raw ≤ 2)
    (cw' : List Nat) (hlen : cw'.length = buf.buf.size) (hbytes : ∀ c ∈ cw', c < 256)
    (hcarry : ∀ k (hk : k < sl.length),
      match sl[k] with
      | some (x, y) => C18.px img' x.toNat y.toNat =
          ((unpack cw')[k]?.getD false ^^ Spec.Patterns.Micro.maskCond m y.toNat x.toNat)
      | none => (unpack cw')[k]?.getD false = false)
    (hdam : C14.dist buf.buf.toList cw' ≤
      (((capOf q.version.toNat q.level.toNat).blocks.head?.map (·.maxError)).getD 0)) :
    Model.Micro.decodeBitmap img' = .ok { q with mask := (m : Int) } := by
  have _ := hm  -- implied by `hmask`
  obtain ⟨v, l, hqv, hql, hp, hs, hfit⟩ := valid_fields q hv
  obtain ⟨version, level, mask, segments⟩ := q
  simp only at hqv hql hs hfit
  subst hqv hql
  obtain ⟨hm1, hm3⟩ := hv.mask
  simp only [Int.toNat_natCast] at hsl hreg hdam
  obtain ⟨raw', raw, hr', hr, hd⟩ := hfmt
  -- the raw word of the clean symbol is the code word of (symbol number of (version, level), mask)
  obtain ⟨f, c, hf8, hm4, hraw, hc, hrc⟩ := clean_format_word v l mask segments hp hs hfit hne hm1 hm3 img m henc hmask
  rw [hr] at hrc
  cases hrc
  -- so the raw word of the damaged bitmap decodes to (version, level, mask) (C11)
  have hdf := decodeFormat_of_word raw' f m raw _ hf8 hm4 hc hraw hd
  exact corrects_rated_damage_fmt_nat v l mask segments hp hs hfit hne hm1 hm3 img m henc hmask buf hbuf sl hsl
    img' hreg raw' hr' hdf cw' hlen hbytes hcarry hdam

/-! ### non-vacuity (Micro QR) -/

/-- for every valid description with non-empty segments the hypotheses of
`micro_corrects_rated_damage_and_format_damage` are jointly satisfiable with zero damage: `img' = img`,
`cw' = buf.buf.toList`; the raw format word of the clean symbol is read, and is at distance 0 from itself -/
theorem micro_format_hypotheses_satisfiable (q : QRCode) (hv : Micro.Valid q) (hne : NonEmptySegments q) :
    ∃ (img : Image) (m : Nat) (buf : Bits.Buffer) (sl : List (Option (Int × Int))),
      Model.Micro.encodeToBitmap q = .ok img ∧ m < 4 ∧
      Model.Micro.decodeBitmap img = .ok { q with mask := (m : Int) } ∧
      Model.Micro.encodeSegments q {} = .ok buf ∧
      slotsOf q.version.toNat q.level.toNat = some sl ∧
      C18.Regular img (9 + 2 * q.version.toNat) (9 + 2 * q.version.toNat) ∧
      (∃ raw' raw, readRawM img = .ok raw' ∧ readRawM img = .ok raw ∧ hamming raw' raw ≤ 2) ∧
      buf.buf.toList.length = buf.buf.size ∧ (∀ c ∈ buf.buf.toList, c < 256) ∧
      (∀ k (hk : k < sl.length),
        match sl[k] with
        | some (x, y) => C18.px img x.toNat y.toNat =
            ((unpack buf.buf.toList)[k]?.getD false ^^ Spec.Patterns.Micro.maskCond m y.toNat x.toNat)
        | none => (unpack buf.buf.toList)[k]?.getD false = false) ∧
      C14.dist buf.buf.toList buf.buf.toList = 0 := by
  obtain ⟨img, m, buf, sl, henc, hm, hmask, hbuf, hsl, hreg, hlen, hbytes, hcarry, hzero⟩ :=
    micro_hypotheses_satisfiable q hv hne
  obtain ⟨raw, hraw, -⟩ := C11.micro_reads_standard_positions img _ hreg
    (by have := hv.version.1; omega)
  exact ⟨img, m, buf, sl, henc, hm, hmask, hbuf, hsl, hreg,
    ⟨raw, raw, hraw, hraw, by rw [QRV.Lemmas.RT.hamming_self]; omega⟩, hlen, hbytes, hcarry, hzero⟩

/-- the theorem applied to that instance (its conclusion then restates `hmask`; the point is that all hypotheses
hold together) -/
example (q : QRCode) (hv : Micro.Valid q) (hne : NonEmptySegments q) :
    ∃ (img : Image) (m : Nat), Model.Micro.encodeToBitmap q = .ok img ∧
      Model.Micro.decodeBitmap img = .ok { q with mask := (m : Int) } := by
  obtain ⟨img, m, buf, sl, henc, hm, hmask, hbuf, hsl, hreg, hfmt, hlen, hbytes, hcarry, hzero⟩ :=
    micro_format_hypotheses_satisfiable q hv hne
  exact ⟨img, m, henc, micro_corrects_rated_damage_and_format_damage q hv hne img m henc hm hmask buf hbuf sl hsl
    img hreg hfmt buf.buf.toList hlen hbytes hcarry
    (by rw [hzero]; exact Nat.zero_le _)⟩

end Micro

section RMQR
open QRV.Lemmas.RR QRV.Lemmas.BCH
open QRV.Lemmas.RT (ilvList sizesOf)

set_option linter.unusedVariables false in
/-- rMQR R7x43-R17x139: rated damage of the data AND damaged version-and-level information that stays readable; no hypothesis
on any other function module -/
theorem rmqr_corrects_rated_damage_and_format_damage (q : QRCode) (hv : RMQR.Valid q) (img : Image)
    (henc : Model.RMQR.encodeToBitmap q = .ok img)
    (cap : Gen.GCap) (hcap : RMQR.row q.version.toNat q.level.toNat = some cap)
    (buf : Bits.Buffer) (hbuf : Model.RMQR.encodeSegments q {} = .ok buf)
    (blks : List (List Nat × List Nat)) (hblks : splitBlocks cap.blocks buf.buf.toList = .ok blks)
    (cs : List (Int × Int))
    (hcs : walk (usedFn q.version.toNat) ((H q.version.toNat : Int) - 1)
      (fuelOf ((W q.version.toNat : Int) - 1) ((H q.version.toNat : Int) - 1))
      (start ((W q.version.toNat : Int) - 1) ((H q.version.toNat : Int) - 1)) = some cs)
    (img' : Image) (hreg : C18.Regular img' (W q.version.toNat) (H q.version.toNat))
    (hfmt : ∃ r1' r2' r1 r2, rmqrRead1 img' = .ok r1' ∧ rmqrRead2 img' = .ok r2' ∧ rmqrRead1 img = .ok r1 ∧ rmqrRead2 img = .ok r2 ∧
      (hamming r1' r1 ≤ 2 ∨
        ((∀ c ∈ Gen.RMQR.encodedVersion, hamming (r1' ^^^ rmqrMask1) c ≥ 3) ∧ hamming r2' r2 ≤ 2)))
    (blks' : List (List Nat × List Nat))
    (hshape : blks'.map (fun b => (b.1.length, b.2.length)) = sizesOf cap.blocks)
    (hbytes : ∀ b ∈ blks', (∀ x ∈ b.1, x < 256) ∧ ∀ x ∈ b.2, x < 256)
    (hcarry : ∀ k (_ : k < 8 * cap.total) (hk' : k < cs.length),
      C18.px img' (cs[k]).1.toNat (cs[k]).2.toNat =
        ((unpack (ilvList blks'))[k]?.getD false ^^
          decide (((cs[k]).2.toNat / 2 + (cs[k]).1.toNat / 3) % 2 = 0)))
    (hdam : ∀ j (hj : j < blks.length) (hj' : j < blks'.length),
      C14.dist (blks[j].1 ++ blks[j].2) (blks'[j].1 ++ blks'[j].2) ≤ (ratedOf cap.blocks)[j]?.getD 0) :
    Model.RMQR.decodeBitmap img' = .ok q := by
  obtain ⟨version, level, mask, segments⟩ := q
  obtain ⟨v, rfl⟩ := Int.eq_ofNat_of_zero_le (show 0 ≤ version from hv.version.1)
  obtain ⟨l, rfl⟩ := Int.eq_ofNat_of_zero_le (show 0 ≤ level from hv.level.1)
  obtain rfl : mask = 0 := hv.mask
  simp only [Int.toNat_natCast] at hcap hcs hreg
  have hv32 : v < 32 := by have := hv.version.2; simp only at this; omega
  have hl2 : l < 2 := by have := hv.level.2; simp only at this; omega
  obtain ⟨r1', r2', r1, r2, h1', h2', h1, h2, hd⟩ := hfmt
  -- both raw words of the clean symbol are the code word of (version, level), XOR the mask of the copy
  obtain ⟨ef, hef, hc1, hc2⟩ := clean_format_words v l segments hv img henc
  rw [h1] at hc1
  cases hc1
  rw [h2] at hc2
  cases hc2
  -- so the version-and-level information of the damaged bitmap reads as (version, level) (C11)
  have hdf := decodeFormat_of_words img' r1' r2' h1' h2' v l ef hv32 hl2 hef hd
  exact corrects_fmt_nat v l segments hv cap hcap buf hbuf blks hblks cs hcs
    img' hreg hdf blks' hshape hbytes hcarry hdam

/-! ### non-vacuity (rMQR) -/

/-- for every valid description the hypotheses of `rmqr_corrects_rated_damage_and_format_damage` are jointly
satisfiable with zero damage: `img' = img`, `blks' = blks`; both raw words of the clean symbol are read, and the first is
at distance 0 from itself -/
theorem rmqr_format_hypotheses_satisfiable (q : QRCode) (hv : RMQR.Valid q) :
    ∃ (img : Image) (cap : Gen.GCap) (buf : Bits.Buffer) (blks : List (List Nat × List Nat)) (cs : List (Int × Int)),
      Model.RMQR.encodeToBitmap q = .ok img ∧
      RMQR.row q.version.toNat q.level.toNat = some cap ∧
      Model.RMQR.encodeSegments q {} = .ok buf ∧ splitBlocks cap.blocks buf.buf.toList = .ok blks ∧
      walk (usedFn q.version.toNat) ((H q.version.toNat : Int) - 1)
        (fuelOf ((W q.version.toNat : Int) - 1) ((H q.version.toNat : Int) - 1))
        (start ((W q.version.toNat : Int) - 1) ((H q.version.toNat : Int) - 1)) = some cs ∧
      C18.Regular img (W q.version.toNat) (H q.version.toNat) ∧
      (∃ r1' r2' r1 r2, rmqrRead1 img = .ok r1' ∧ rmqrRead2 img = .ok r2' ∧ rmqrRead1 img = .ok r1 ∧ rmqrRead2 img = .ok r2 ∧
        (hamming r1' r1 ≤ 2 ∨
          ((∀ c ∈ Gen.RMQR.encodedVersion, hamming (r1' ^^^ rmqrMask1) c ≥ 3) ∧ hamming r2' r2 ≤ 2))) ∧
      blks.map (fun b => (b.1.length, b.2.length)) = sizesOf cap.blocks ∧
      (∀ b ∈ blks, (∀ x ∈ b.1, x < 256) ∧ ∀ x ∈ b.2, x < 256) ∧
      (∀ k (_ : k < 8 * cap.total) (hk' : k < cs.length),
        C18.px img (cs[k]).1.toNat (cs[k]).2.toNat =
          ((unpack (ilvList blks))[k]?.getD false ^^
            decide (((cs[k]).2.toNat / 2 + (cs[k]).1.toNat / 3) % 2 = 0))) ∧
      (∀ j (_ : j < blks.length), C14.dist (blks[j].1 ++ blks[j].2) (blks[j].1 ++ blks[j].2) = 0) := by
  obtain ⟨img, cap, buf, blks, cs, henc, hcap, hbuf, hblks, hcs, hreg, hshape, hbytes, hcarry, hzero⟩ :=
    rmqr_hypotheses_satisfiable q hv
  have hv32 : q.version.toNat < 32 := by have := hv.version; omega
  obtain ⟨hW27, -, hH7, -⟩ := sizes_ok _ hv32
  obtain ⟨r1, r2, h1, h2, -⟩ := C11.rmqr_reads_standard_positions img _ _ hreg hW27 hH7
  exact ⟨img, cap, buf, blks, cs, henc, hcap, hbuf, hblks, hcs, hreg,
    ⟨r1, r2, r1, r2, h1, h2, h1, h2, Or.inl (by rw [QRV.Lemmas.RT.hamming_self]; omega)⟩, hshape, hbytes, hcarry, hzero⟩

/-- the theorem applied to that instance: all hypotheses hold together, and the conclusion is the round trip C01 -/
example (q : QRCode) (hv : RMQR.Valid q) :
    ∃ img, Model.RMQR.encodeToBitmap q = .ok img ∧ Model.RMQR.decodeBitmap img = .ok q := by
  obtain ⟨img, cap, buf, blks, cs, henc, hcap, hbuf, hblks, hcs, hreg, hfmt, hshape, hbytes, hcarry, hzero⟩ :=
    rmqr_format_hypotheses_satisfiable q hv
  exact ⟨img, henc, rmqr_corrects_rated_damage_and_format_damage q hv img henc cap hcap buf hbuf blks hblks cs hcs
    img hreg hfmt blks hshape hbytes hcarry
    (fun j hj _ => by rw [hzero j hj]; exact Nat.zero_le _)⟩

/-- the fallback branch of `hfmt` is not vacuous either: an all-light first copy (the raw word 0, which unmasks to
`rmqrMask1`) is three or more modules from every code word (kernel evaluation over the regenerated table) -/
example : ∀ c ∈ Gen.RMQR.encodedVersion, hamming (0 ^^^ rmqrMask1) c ≥ 3 := by
  have h : Gen.RMQR.encodedVersion.all (fun c => decide (hamming (0 ^^^ rmqrMask1) c ≥ 3)) = true := by decide +kernel
  intro c hc
  simpa using List.all_eq_true.mp h c hc

end RMQR

end QRV.Props.C03
