import QRV.Props.C01Micro
import QRV.Props.C02
import QRV.Spec.SymbolMicro
import QRV.Lemmas.MicroSymEncode
/-
C02 — Micro QR M1-M4: the emitted symbol IS the declarative symbol of the description, module by
module (`Spec.Symbol.Micro.IsSymbol`: data stream with terminator and the 4-bit final codeword of
M1/M3, one Reed-Solomon block, placement order, the four mask patterns, format information,
function patterns).
-/
namespace QRV.Props.C02
open QRV QRV.Model QRV.Model.Sym QRV.Model.Bitmap QRV.Spec.Valid

/-- explicit mask m: the encoder's output is a regular bitmap of the version's size whose pixels are
the Micro QR symbol of the description with mask pattern m -/
theorem micro_symbol (q : QRCode) (hv : Micro.Valid q) (m : Nat) (hm : m < 4) (hq : q.mask = (m : Int)) :
    ∃ img, Model.Micro.encodeToBitmap q = .ok img ∧
      C18.Regular img (Spec.Patterns.Micro.size q.version.toNat) (Spec.Patterns.Micro.size q.version.toNat) ∧
      Spec.Symbol.Micro.IsSymbol q m (C18.px img) := by
  obtain ⟨v, l, hqv, hql, hp, hs, hfit⟩ := Lemmas.MRT.valid_fields q hv
  obtain ⟨version, level, mask, segments⟩ := q
  simp only at hqv hql hs hfit hq
  subst hqv hql
  obtain ⟨hm1, hm3⟩ := hv.mask
  simp only at hm1 hm3
  obtain ⟨img, m', henc, -, hmeq, hreg, hsym⟩ := Lemmas.MSym.symbol_core v l mask segments hp hs hfit hm1 hm3
  have hmm : m' = m := by have := hmeq (by omega); omega
  subst hmm
  exact ⟨img, henc, by simpa [Spec.Patterns.Micro.size] using hreg, hsym⟩

/-- automatic mask: the output is the symbol for some mask pattern m in 0..3 -/
theorem micro_symbol_auto (q : QRCode) (hv : Micro.Valid q) (hq : q.mask = -1) :
    ∃ img m, m < 4 ∧ Model.Micro.encodeToBitmap q = .ok img ∧
      C18.Regular img (Spec.Patterns.Micro.size q.version.toNat) (Spec.Patterns.Micro.size q.version.toNat) ∧
      Spec.Symbol.Micro.IsSymbol q m (C18.px img) := by
  have _ := hq
  obtain ⟨v, l, hqv, hql, hp, hs, hfit⟩ := Lemmas.MRT.valid_fields q hv
  obtain ⟨version, level, mask, segments⟩ := q
  simp only at hqv hql hs hfit
  subst hqv hql
  obtain ⟨hm1, hm3⟩ := hv.mask
  simp only at hm1 hm3
  obtain ⟨img, m, henc, hm4, -, hreg, hsym⟩ := Lemmas.MSym.symbol_core v l mask segments hp hs hfit hm1 hm3
  exact ⟨img, m, hm4, henc, by simpa [Spec.Patterns.Micro.size] using hreg, hsym⟩

/-- the specification determines the symbol -/
theorem micro_symbol_unique (q : QRCode) (hv : Micro.Valid q) (m : Nat) (px px' : Nat → Nat → Bool)
    (h : Spec.Symbol.Micro.IsSymbol q m px) (h' : Spec.Symbol.Micro.IsSymbol q m px') :
    ∀ x y, x < Spec.Patterns.Micro.size q.version.toNat → y < Spec.Patterns.Micro.size q.version.toNat →
      px x y = px' x y := by
  obtain ⟨v, l, hqv, hql, hp, -, -⟩ := Lemmas.MRT.valid_fields q hv
  obtain ⟨version, level, mask, segments⟩ := q
  simp only at hqv hql
  subst hqv hql
  simpa [Spec.Patterns.Micro.size] using Lemmas.MSym.symbol_unique v l mask segments hp m px px' h h'

/-- non-vacuity: the placement order of M1 starts at the bottom right corner and has 36 modules,
20 data bits and 2 correction codewords -/
example : (Spec.Symbol.Micro.dataCoords 1).take 3 = [(10, 10), (9, 10), (10, 9)] ∧
    (Spec.Symbol.Micro.dataCoords 1).length = 20 + 8 * 2 := by decide +kernel

end QRV.Props.C02
