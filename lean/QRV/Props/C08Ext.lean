import QRV.Props.C08
import QRV.Lemmas.EncValidExt
/-
C08 — Micro QR and rMQR: whatever the encoder does not answer with an error is a valid description.
-/
namespace QRV.Props.C08
open QRV QRV.Model QRV.Model.Sym QRV.Spec.Valid

/-- Micro QR: the encoder answers with an error, or the description is valid -/
theorem micro_encode_err_or_valid (q : QRCode) (hb : Bytes q) :
    (∃ msg, Model.Micro.encodeToBitmap q = .err msg) ∨ Micro.Valid q :=
  Lemmas.EncExt.micro_encode_err_or_valid q hb

/-- rMQR: the encoder answers with an error, or the description is valid (the mask field is not
part of an rMQR description: it is compared after being set to 0) -/
theorem rmqr_encode_err_or_valid (q : QRCode) (hb : Bytes q) :
    (∃ msg, Model.RMQR.encodeToBitmap q = .err msg) ∨ RMQR.Valid { q with mask := 0 } :=
  Lemmas.EncExt.rmqr_encode_err_or_valid q hb

end QRV.Props.C08
