import QRV.Props.C04Ext
import QRV.Props.C05Ext
import QRV.Props.C01RMQR
import QRV.Props.C01Micro
import QRV.Lemmas.FitCountMicro
import QRV.Lemmas.NewMicroValid
import QRV.Lemmas.NewRMQRValid
/-
C04 — `New` of the Micro QR and rMQR packages: whenever it accepts a payload the returned description
is VALID (`Spec.Valid.Micro.Valid` / `Spec.Valid.RMQR.Valid`), its segments are non-empty and
concatenate to the payload, kanji segments only when kanji is enabled; `New` never panics.
rMQR: hence (C01.roundtrip_RMQR) it encodes without error and decodes back to the payload.
Payload size bound `< 2^56` bytes as in C04 (costs are capped).
-/
namespace QRV.Props.C04
open QRV QRV.Model QRV.Model.Sym QRV.Spec.Valid

/-- Micro QR: a segment whose standard bit length fits the data bits of a (version, level) pair has a
character count below the limit of its count indicator -/
theorem micro_fit_implies_count (v level : Nat) (cap : Nat) (hcap : Spec.Valid.Micro.dataBits v level = some cap)
    (s : Segment) (k cb : Nat) (hk : Spec.Valid.Micro.kindOf s.mode = some k)
    (hcb : Spec.Valid.Micro.countBits k v = some cb) (hfit : Spec.Valid.Micro.segBits s v ≤ cap) :
    count k s.data < 2 ^ cb := by
  exact Lemmas.FitCountMicro.micro_fit_implies_count v level cap hcap s k cb hk hcb hfit

theorem micro_new_valid (level : Int) (kanji : Bool) (data : List Nat) (hb : ∀ b ∈ data, b < 256)
    (hsz : data.length < 2 ^ 56) (q : QRCode) (h : Model.Micro.new level kanji data = .ok q) :
    Spec.Valid.Micro.Valid q ∧ q.level = level ∧ q.mask = -1 ∧ q.segments.flatMap (·.data) = data ∧
      (∀ s ∈ q.segments, s.data ≠ []) ∧ (kanji = false → ∀ s ∈ q.segments, s.mode ≠ 3) := by
  exact Lemmas.NewMicroValid.micro_new_valid level kanji data hb hsz q h

/-- Micro QR `New` end to end: the returned description encodes and decodes back to the payload -/
theorem micro_new_roundtrip (level : Int) (kanji : Bool) (data : List Nat) (hb : ∀ b ∈ data, b < 256)
    (hsz : data.length < 2 ^ 56) (q : QRCode) (h : Model.Micro.new level kanji data = .ok q) :
    ∃ img q', Model.Micro.encodeToBitmap q = .ok img ∧ Model.Micro.decodeBitmap img = .ok q' ∧
      q'.version = q.version ∧ q'.level = level ∧ q'.segments = q.segments ∧
      q'.segments.flatMap (·.data) = data := by
  exact Lemmas.NewMicroValid.micro_new_roundtrip level kanji data hb hsz q h

/-- Micro QR `New` never panics.  The size hypothesis `hsz` is not used: unlike the QR package, Micro
QR's `Segment.length` reports an unknown mode instead of panicking, and the mode `modeList[0] = 0` that
the capped non-kanji programme emits on payloads beyond about 4.6e17 bytes IS Micro QR's numeric mode;
see `micro_new_no_panic_unbounded`.  (The proof of the VALIDITY theorem does use the bound: the class
invariants of the two programmes hold only while no cost reaches the cap.) -/
theorem micro_new_no_panic (level : Int) (kanji : Bool) (data : List Nat) (hb : ∀ b ∈ data, b < 256)
    (hsz : kanji = false → data.length < 2 ^ 56) :
    (Model.Micro.new level kanji data).isPanic = false := by
  exact Lemmas.NewMicroValid.micro_new_no_panic level kanji data hb hsz

theorem rmqr_new_valid (level prio : Int) (kanji : Bool) (data : List Nat) (hb : ∀ b ∈ data, b < 256)
    (hsz : data.length < 2 ^ 56) (q : QRCode) (h : Model.RMQR.new level prio kanji data = .ok q) :
    Spec.Valid.RMQR.Valid q ∧ q.level = level ∧ q.segments.flatMap (·.data) = data ∧
      (∀ s ∈ q.segments, s.data ≠ []) ∧ (kanji = false → ∀ s ∈ q.segments, s.mode ≠ 4) := by
  exact Lemmas.NewRMQRValid.rmqr_new_valid level prio kanji data hb hsz q h

theorem rmqr_new_roundtrip (level prio : Int) (kanji : Bool) (data : List Nat) (hb : ∀ b ∈ data, b < 256)
    (hsz : data.length < 2 ^ 56) (q : QRCode) (h : Model.RMQR.new level prio kanji data = .ok q) :
    ∃ img, Model.RMQR.encodeToBitmap q = .ok img ∧ Model.RMQR.decodeBitmap img = .ok q ∧
      q.segments.flatMap (·.data) = data := by
  exact Lemmas.NewRMQRValid.rmqr_new_roundtrip level prio kanji data hb hsz q h

/-- rMQR `New` never panics.  The size hypothesis `hsz` is not used (rMQR's `Segment.length` reports
an unknown mode instead of panicking); see `rmqr_new_no_panic_unbounded`. -/
theorem rmqr_new_no_panic (level prio : Int) (kanji : Bool) (data : List Nat) (hb : ∀ b ∈ data, b < 256)
    (hsz : kanji = false → data.length < 2 ^ 56) :
    (Model.RMQR.new level prio kanji data).isPanic = false := by
  exact Lemmas.NewRMQRValid.rmqr_new_no_panic level prio kanji data hb hsz

/-- Micro QR `New` never panics, whatever the level, the payload bytes and the payload length -/
theorem micro_new_no_panic_unbounded (level : Int) (kanji : Bool) (data : List Nat) :
    (Model.Micro.new level kanji data).isPanic = false := by
  exact Lemmas.NewMicroValid.micro_new_no_panic' level kanji data

/-- rMQR `New` never panics, whatever the level, the priority, the payload bytes and the payload length -/
theorem rmqr_new_no_panic_unbounded (level prio : Int) (kanji : Bool) (data : List Nat) :
    (Model.RMQR.new level prio kanji data).isPanic = false := by
  exact Lemmas.NewRMQRValid.rmqr_new_no_panic' level prio kanji data

/-! non-vacuity: a kanji + digit payload; the empty payload at each Micro QR level value -/
example : (match Model.Micro.new 1 true [0xE6, 0x97, 0xA5, 0x31] with
    | .ok q => q.segments.map (·.mode) == [3, 0] && q.version == 3
    | _ => false) = true := by decide +kernel

example : (match Model.RMQR.new 1 2 true [0xE6, 0x97, 0xA5, 0x31] with
    | .ok q => q.segments.map (·.mode) == [4, 1] && q.version == 10
    | _ => false) = true := by decide +kernel

example : ((List.range 4).map fun l => match Model.Micro.new (Int.ofNat l) false [] with
    | .ok q => q.version
    | _ => 0) = [2, 2, 1, 4] := by decide +kernel

end QRV.Props.C04
