import QRV.Model.QR
import QRV.Model.Micro
import QRV.Model.RMQR
import QRV.Lemmas.BCHFinite
/-
C11 — format/version information is the standard BCH code and is read robustly.

Tables: `Gen.*` (regenerated) against `Spec.BCH` (from the generator polynomials).
Readers: `Model.QR.decodeFormat0`, `Model.Micro.decodeFormat`, `Model.RMQR.decodeFormat0`
(first-minimum scans over the table, reject at distance ≥ 3), and the two-copy logic of
`Model.QR.decodeFormat` / `Model.RMQR.decodeFormat`.
-/
namespace QRV.Props.C11
open QRV QRV.Model QRV.Spec.BCH

/-! ### the written words are the standard's BCH codewords -/

theorem qr_format_is_bch (i : Nat) (h : i < 32) :
    Gen.QR.encodedFormat[i]? = some (bch15 i ^^^ 0x5412) := by
  sorry

theorem qr_version_is_bch (v : Nat) (h7 : 7 ≤ v) (h40 : v ≤ 40) :
    Gen.QR.encodedVersion[v]? = some (bch18 v) := by
  sorry

theorem micro_format_is_bch (i : Nat) (h : i < 32) :
    Gen.Micro.encodedFormat[i]? = some (bch15 i ^^^ 0x4445) := by
  sorry

theorem rmqr_version_is_bch (i : Nat) (h : i < 64) :
    Gen.RMQR.encodedVersion[i]? = some (bch18 i) := by
  sorry

/-! ### nearest-codeword reading: accept within distance 2, reject at distance ≥ 3 -/

/-- QR: a raw word within two modules of the codeword of (level, mask) reads as exactly that pair -/
theorem qr_nearest (raw idx c : Nat) (hi : idx < 32) (hc : Gen.QR.encodedFormat[idx]? = some c)
    (hd : hamming raw c ≤ 2) :
    QR.decodeFormat0 raw = some (((idx >>> 3 : Nat) : Int), ((idx &&& 7 : Nat) : Int)) := by
  sorry

/-- QR: a raw word three or more modules from every codeword is rejected, not guessed -/
theorem qr_reject (raw : Nat) (hd : ∀ c ∈ Gen.QR.encodedFormat, hamming raw c ≥ 3) :
    QR.decodeFormat0 raw = none := by
  sorry

theorem micro_nearest (raw idx c : Nat) (hi : idx < 32) (hc : Gen.Micro.encodedFormat[idx]? = some c)
    (hd : hamming raw c ≤ 2) :
    ∃ v l, Gen.Micro.rawFormatTable[idx >>> 2]? = some (v, l) ∧
      Micro.decodeFormat raw = .ok (some (v, l, ((idx &&& 3 : Nat) : Int))) := by
  sorry

theorem micro_reject (raw : Nat) (hd : ∀ c ∈ Gen.Micro.encodedFormat, hamming raw c ≥ 3) :
    Micro.decodeFormat raw = .ok none := by
  sorry

theorem rmqr_nearest (raw idx c : Nat) (hi : idx < 64) (hc : Gen.RMQR.encodedVersion[idx]? = some c)
    (hd : hamming raw c ≤ 2) :
    RMQR.decodeFormat0 raw = some (((idx &&& 0x1f : Nat) : Int), (((idx >>> 5) &&& 1 : Nat) : Int)) := by
  sorry

theorem rmqr_reject (raw : Nat) (hd : ∀ c ∈ Gen.RMQR.encodedVersion, hamming raw c ≥ 3) :
    RMQR.decodeFormat0 raw = none := by
  sorry

/-- the accept/reject boundary is a dichotomy for every raw word: either some codeword is within 2
(and it is unique), or all are at distance ≥ 3 -/
theorem qr_dichotomy (raw : Nat) :
    (∃ idx c, idx < 32 ∧ Gen.QR.encodedFormat[idx]? = some c ∧ hamming raw c ≤ 2) ∨
    (∀ c ∈ Gen.QR.encodedFormat, hamming raw c ≥ 3) := by
  sorry

/-! non-vacuity: the all-zero data word of each code -/
example : bch15 0 ^^^ 0x5412 = 0x5412 ∧ bch15 1 = 0x0537 ∧ bch18 7 = 0x07C94 := by decide +kernel
example : QR.decodeFormat0 (0x5412 ^^^ 0b101) = some (0, 0) := by decide +kernel

end QRV.Props.C11
