import QRV.Model.QR
import QRV.Model.Micro
import QRV.Model.RMQR
import QRV.Lemmas.BCHFinite
import QRV.Lemmas.BCHScan
/-
C11 — format/version information is the standard BCH code and is read robustly.

Tables: `Gen.*` (regenerated) against `Spec.BCH` (from the generator polynomials).
Readers: `Model.QR.decodeFormat0`, `Model.Micro.decodeFormat`, `Model.RMQR.decodeFormat0`
(first-minimum scans over the table, reject at distance ≥ 3), and the two-copy logic of
`Model.QR.decodeFormat` / `Model.RMQR.decodeFormat`.
-/
namespace QRV.Props.C11
open QRV QRV.Model QRV.Model.Bitmap QRV.Spec.BCH QRV.Lemmas.BCH

/-! ### the written words are the standard's BCH codewords -/

theorem qr_format_is_bch (i : Nat) (h : i < 32) :
    Gen.QR.encodedFormat[i]? = some (bch15 i ^^^ 0x5412) := by
  rw [qr_format_table, List.getElem?_map, List.getElem?_range h]; rfl

theorem qr_version_is_bch (v : Nat) (h7 : 7 ≤ v) (h40 : v ≤ 40) :
    Gen.QR.encodedVersion[v]? = some (bch18 v) := by
  rw [qr_version_table, List.getElem?_map, List.getElem?_range (by omega), Option.map_some,
    if_neg (by omega)]

theorem micro_format_is_bch (i : Nat) (h : i < 32) :
    Gen.Micro.encodedFormat[i]? = some (bch15 i ^^^ 0x4445) := by
  rw [micro_format_table, List.getElem?_map, List.getElem?_range h]; rfl

theorem rmqr_version_is_bch (i : Nat) (h : i < 64) :
    Gen.RMQR.encodedVersion[i]? = some (bch18 i) := by
  rw [rmqr_version_table, List.getElem?_map, List.getElem?_range h]; rfl

/-! ### nearest-codeword reading: accept within distance 2, reject at distance ≥ 3 -/

/-- QR: a raw word within two modules of the codeword of (level, mask) reads as exactly that pair -/
theorem qr_nearest (raw idx c : Nat) (hi : idx < 32) (hc : Gen.QR.encodedFormat[idx]? = some c)
    (hd : hamming raw c ≤ 2) :
    QR.decodeFormat0 raw = some (((idx >>> 3 : Nat) : Int), ((idx &&& 7 : Nat) : Int)) := by
  have _ := hi
  have ⟨h1, h2⟩ := scan_nearest qr_format_distance raw idx c hc hd
  rw [qr_decodeFormat0_eq, if_neg (by omega), h1]

/-- QR: a raw word three or more modules from every codeword is rejected, not guessed -/
theorem qr_reject (raw : Nat) (hd : ∀ c ∈ Gen.QR.encodedFormat, hamming raw c ≥ 3) :
    QR.decodeFormat0 raw = none := by
  rw [qr_decodeFormat0_eq, if_pos (scan_reject (by rw [qr_format_length]; omega) raw hd)]

theorem micro_nearest (raw idx c : Nat) (hi : idx < 32) (hc : Gen.Micro.encodedFormat[idx]? = some c)
    (hd : hamming raw c ≤ 2) :
    ∃ v l, Gen.Micro.rawFormatTable[idx >>> 2]? = some (v, l) ∧
      Micro.decodeFormat raw = .ok (some (v, l, ((idx &&& 3 : Nat) : Int))) := by
  have ⟨h1, h2⟩ := scan_nearest micro_format_distance raw idx c hc hd
  rw [micro_decodeFormat_eq, if_neg (by omega), h1]
  exact micro_symbol_lookup idx hi _

theorem micro_reject (raw : Nat) (hd : ∀ c ∈ Gen.Micro.encodedFormat, hamming raw c ≥ 3) :
    Micro.decodeFormat raw = .ok none := by
  rw [micro_decodeFormat_eq, if_pos (scan_reject (by rw [micro_format_length]; omega) raw hd)]

theorem rmqr_nearest (raw idx c : Nat) (hi : idx < 64) (hc : Gen.RMQR.encodedVersion[idx]? = some c)
    (hd : hamming raw c ≤ 2) :
    RMQR.decodeFormat0 raw = some (((idx &&& 0x1f : Nat) : Int), (((idx >>> 5) &&& 1 : Nat) : Int)) := by
  have _ := hi
  have ⟨h1, h2⟩ := scan_nearest rmqr_version_distance raw idx c hc hd
  rw [rmqr_decodeFormat0_eq, if_neg (by omega), h1]

theorem rmqr_reject (raw : Nat) (hd : ∀ c ∈ Gen.RMQR.encodedVersion, hamming raw c ≥ 3) :
    RMQR.decodeFormat0 raw = none := by
  rw [rmqr_decodeFormat0_eq, if_pos (scan_reject (by rw [rmqr_version_length]; omega) raw hd)]

/-- the accept/reject boundary is a dichotomy for every raw word: either some codeword is within 2
(and it is unique), or all are at distance ≥ 3 -/
theorem qr_dichotomy (raw : Nat) :
    (∃ idx c, idx < 32 ∧ Gen.QR.encodedFormat[idx]? = some c ∧ hamming raw c ≤ 2) ∨
    (∀ c ∈ Gen.QR.encodedFormat, hamming raw c ≥ 3) := by
  have := scan_dichotomy (tbl := Gen.QR.encodedFormat) (by rw [qr_format_length]; omega) raw
  rwa [qr_format_length] at this

/-! ### the two-copy logic of `QR.decodeFormat` and `RMQR.decodeFormat`

`Lemmas.BCH.twoCopy dec msg raw1 read2`: decode the first copy with the single-copy reader `dec`;
only if that is rejected, read (`read2 : Out Nat`) and decode the second; error when both are
rejected.  The two model functions are exactly "read the raw word(s) from the image, then
`twoCopy`" (`qrReadRaws`, `rmqrRead1`, `rmqrRead2` are the models' own reading loops). -/

theorem qr_decodeFormat_is_twoCopy (img : Image) :
    QR.decodeFormat img =
      qrReadRaws img >>= fun p => twoCopy QR.decodeFormat0 "qrcode: QRCode not found" p.1 (pure p.2) :=
  qr_decodeFormat_factor img

theorem rmqr_decodeFormat_is_twoCopy (img : Image) :
    RMQR.decodeFormat img =
      rmqrRead1 img >>= fun raw =>
        twoCopy RMQR.decodeFormat0 "rmqr: rMRQ not found" (raw ^^^ RMQR.fmtMask1)
          (rmqrRead2 img >>= fun raw2 => pure (raw2 ^^^ RMQR.fmtMask2)) :=
  rmqr_decodeFormat_factor img

/-- QR: a first copy within 2 of a codeword wins, whatever the second copy holds (or fails with) -/
theorem qr_first_copy_wins (msg : String) (raw1 : Nat) (read2 : Out Nat) (idx c : Nat) (hi : idx < 32)
    (hc : Gen.QR.encodedFormat[idx]? = some c) (hd : hamming raw1 c ≤ 2) :
    twoCopy QR.decodeFormat0 msg raw1 read2 =
      .ok (((idx >>> 3 : Nat) : Int), ((idx &&& 7 : Nat) : Int)) :=
  twoCopy_first read2 (qr_nearest raw1 idx c hi hc hd)

/-- QR: a first copy ≥ 3 from every codeword falls back to the second copy -/
theorem qr_second_copy_fallback (msg : String) (raw1 raw2 idx c : Nat) (hi : idx < 32)
    (h1 : ∀ c ∈ Gen.QR.encodedFormat, hamming raw1 c ≥ 3)
    (hc : Gen.QR.encodedFormat[idx]? = some c) (hd : hamming raw2 c ≤ 2) :
    twoCopy QR.decodeFormat0 msg raw1 (.ok raw2) =
      .ok (((idx >>> 3 : Nat) : Int), ((idx &&& 7 : Nat) : Int)) :=
  twoCopy_second (qr_reject raw1 h1) (qr_nearest raw2 idx c hi hc hd)

/-- QR: both copies ≥ 3 from every codeword: an error, not a guess -/
theorem qr_both_far (msg : String) (raw1 raw2 : Nat)
    (h1 : ∀ c ∈ Gen.QR.encodedFormat, hamming raw1 c ≥ 3)
    (h2 : ∀ c ∈ Gen.QR.encodedFormat, hamming raw2 c ≥ 3) :
    twoCopy QR.decodeFormat0 msg raw1 (.ok raw2) = .err msg :=
  twoCopy_none (qr_reject raw1 h1) (qr_reject raw2 h2)

theorem rmqr_first_copy_wins (msg : String) (raw1 : Nat) (read2 : Out Nat) (idx c : Nat) (hi : idx < 64)
    (hc : Gen.RMQR.encodedVersion[idx]? = some c) (hd : hamming raw1 c ≤ 2) :
    twoCopy RMQR.decodeFormat0 msg raw1 read2 =
      .ok (((idx &&& 0x1f : Nat) : Int), (((idx >>> 5) &&& 1 : Nat) : Int)) :=
  twoCopy_first read2 (rmqr_nearest raw1 idx c hi hc hd)

theorem rmqr_second_copy_fallback (msg : String) (raw1 raw2 idx c : Nat) (hi : idx < 64)
    (h1 : ∀ c ∈ Gen.RMQR.encodedVersion, hamming raw1 c ≥ 3)
    (hc : Gen.RMQR.encodedVersion[idx]? = some c) (hd : hamming raw2 c ≤ 2) :
    twoCopy RMQR.decodeFormat0 msg raw1 (.ok raw2) =
      .ok (((idx &&& 0x1f : Nat) : Int), (((idx >>> 5) &&& 1 : Nat) : Int)) :=
  twoCopy_second (rmqr_reject raw1 h1) (rmqr_nearest raw2 idx c hi hc hd)

theorem rmqr_both_far (msg : String) (raw1 raw2 : Nat)
    (h1 : ∀ c ∈ Gen.RMQR.encodedVersion, hamming raw1 c ≥ 3)
    (h2 : ∀ c ∈ Gen.RMQR.encodedVersion, hamming raw2 c ≥ 3) :
    twoCopy RMQR.decodeFormat0 msg raw1 (.ok raw2) = .err msg :=
  twoCopy_none (rmqr_reject raw1 h1) (rmqr_reject raw2 h2)

/-- the second copy is read only when the first is rejected; a failure of that read then propagates -/
theorem second_read_failure (dec : Nat → Option (Int × Int)) (msg m : String) (raw1 : Nat)
    (h1 : dec raw1 = none) :
    twoCopy dec msg raw1 (.err m) = .err m ∧ twoCopy dec msg raw1 (.panic m) = .panic m :=
  twoCopy_read_fails h1 m

/-! non-vacuity: the all-zero data word of each code -/
example : bch15 0 ^^^ 0x5412 = 0x5412 ∧ bch15 1 = 0x0537 ∧ bch18 7 = 0x07C94 := by decide +kernel
example : QR.decodeFormat0 (0x5412 ^^^ 0b101) = some (0, 0) := by decide +kernel

end QRV.Props.C11
