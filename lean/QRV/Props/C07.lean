import QRV.Props.C01
import QRV.Props.C06
import QRV.Props.C17
/-
C07 — whatever a decoder returns is a well-formed, re-encodable symbol description.

QR: a successful decode reports the version given by the bitmap's size, a level and mask in range,
and segments of supported modes whose bytes are valid for the mode (per-mode soundness: C17); and
whenever that description fits the symbol (see the known finding on truncated final characters,
DESIGN.md D16) re-encoding it succeeds and decodes to the identical description.
-/
namespace QRV.Props.C07
open QRV QRV.Model QRV.Model.Sym QRV.Model.Bitmap QRV.Spec.Valid

/-- everything `QR.Valid` asks except the capacity clause -/
structure WellFormedQR (q : QRCode) : Prop where
  version : 1 ≤ q.version ∧ q.version ≤ 40
  level : 0 ≤ q.level ∧ q.level < 4
  mask : 0 ≤ q.mask ∧ q.mask ≤ 7
  segments : ∀ s ∈ q.segments, ∃ k, Spec.Valid.QR.kindOf s.mode = some k ∧ ValidData k s.data ∧
    count k s.data < 2 ^ Spec.Valid.QR.countBits k q.version.toNat

/-- QR: what DecodeBitmap returns is well-formed and its version matches the bitmap's dimensions -/
theorem qr_decoded_wf (img : Image) (hw : C06.WellFormed img) (q : QRCode)
    (h : Model.QR.decodeBitmap img = .ok q) :
    WellFormedQR q ∧ img.dx = 17 + 4 * q.version ∧ img.dy = img.dx := by
  obtain ⟨hv, hl, hm, hs, hx, hy⟩ := (Lemmas.Dec.qr_decodeBitmap_sat img hw.wf).of_ok h
  exact ⟨⟨hv, hl, hm, hs⟩, hx, hy⟩

/-- QR: a decoded description that fits the symbol re-encodes and decodes to itself -/
theorem qr_decoded_reencodes (img : Image) (hw : C06.WellFormed img) (q : QRCode)
    (h : Model.QR.decodeBitmap img = .ok q)
    (hfit : (q.segments.map fun s => Spec.Valid.QR.segBits s q.version.toNat).sum ≤
      8 * Spec.Tables.dataCodewords q.version.toNat q.level.toNat) :
    ∃ img', Model.QR.encodeToBitmap q = .ok img' ∧ Model.QR.decodeBitmap img' = .ok q := by
  obtain ⟨wf, _, _⟩ := qr_decoded_wf img hw q h
  have hv : Spec.Valid.QR.Valid q := ⟨wf.version, wf.level, ⟨by have := wf.mask.1; omega, wf.mask.2⟩, wf.segments, hfit⟩
  obtain ⟨img', m, he, hm, _, _, hd⟩ := C01.roundtrip_QR_any q hv
  have : m = q.mask := hm wf.mask.1
  subst this
  exact ⟨img', he, by simpa using hd⟩

end QRV.Props.C07
