import QRV.Model.Bits
import QRV.Spec.Bits
import QRV.Lemmas.Bits
/-
C16 — the bit buffer is a faithful MSB-first FIFO of bits.

Stated about `QRV.Model.Bits` (the byte-level model of bitstram.go) against the list specification
`QRV.Spec.Bits`.  `abs b` is the abstract content: the first `len b` bits of the byte image.
-/
namespace QRV.Props.C16
open QRV QRV.Model.Bits QRV.Spec.Bits QRV.Lemmas.Bits

/-- representation invariant of the write side -/
structure Inv (b : Buffer) : Prop where
  wrote_lt : b.wrote < 8
  bytes_lt : ∀ x ∈ b.buf.toList, x < 256
  nonempty : b.wrote ≠ 0 → b.buf.size ≠ 0
  low_zero : b.wrote ≠ 0 → ∀ last, b.buf.toList.getLast? = some last → last % 2 ^ (8 - b.wrote) = 0

/-- the bits held by the buffer: the first `len` bits of its byte image -/
def abs (b : Buffer) : List Bool := (unpack b.buf.toList).take b.len

/-- an operation of the write side, in range -/
inductive WOp where
  | bit (v : Nat)
  | bitsLSB (v : Nat) (n : Nat) (h : n ≤ 64)

def WOp.bits : WOp → List Bool
  | .bit v => [decide (v % 2 = 1)]
  | .bitsLSB v n _ => bitsMSB v n

def WOp.run (b : Buffer) : WOp → Out Buffer
  | .bit v => writeBit b v
  | .bitsLSB v n _ => writeBitsLSB b v n

/-- `Inv`/`abs` are the `WInv`/`content` of the lemma file -/
theorem inv_iff (b : Buffer) : Inv b ↔ WInv b :=
  ⟨fun h => ⟨h.1, h.2, h.3, h.4⟩, fun h => ⟨h.1, h.2, h.3, h.4⟩⟩

theorem abs_eq (b : Buffer) : abs b = content b := rfl

theorem step_iff (b b' : Buffer) (bits : List Bool) :
    Step b b' bits ↔ (Inv b' ∧ abs b' = abs b ++ bits ∧ b'.offset = b.offset ∧ b'.read = b.read) := by
  simp only [Step, inv_iff, abs_eq]

theorem inv_empty : Inv {} := by
  constructor <;> simp

theorem abs_empty : abs {} = [] := by
  rfl

/-- Len is the number of bits written -/
theorem len_eq (b : Buffer) (h : Inv b) : b.len = (abs b).length := by
  exact ((inv_iff b).1 h).len_eq

/-- the byte image is exactly the bits packed MSB first, last byte zero-padded -/
theorem bytes_are_packing (b : Buffer) (h : Inv b) : b.buf.toList = pack (abs b) := by
  exact ((inv_iff b).1 h).bytes_are_packing

/-- a single-bit write never panics, keeps the invariant and appends exactly that bit -/
theorem writeBit_refines (b : Buffer) (h : Inv b) (v : Nat) :
    ∃ b', writeBit b v = .ok b' ∧ Inv b' ∧ abs b' = abs b ++ [decide (v % 2 = 1)] ∧
      b'.offset = b.offset ∧ b'.read = b.read := by
  simpa only [step_iff] using writeBit_spec b ((inv_iff b).1 h) v

/-- a multi-bit write of n ≤ 64 bits never panics, keeps the invariant and appends exactly the n
low-order bits of v, most significant first (whatever garbage v has above bit n) -/
theorem writeBitsLSB_refines (b : Buffer) (h : Inv b) (v n : Nat) (hn : n ≤ 64) :
    ∃ b', writeBitsLSB b v n = .ok b' ∧ Inv b' ∧ abs b' = abs b ++ bitsMSB v n ∧
      b'.offset = b.offset ∧ b'.read = b.read := by
  simpa only [step_iff] using writeBitsLSB_spec b ((inv_iff b).1 h) v n hn

/-- any interleaving of in-range writes: by induction over the operation list -/
theorem writes_refine (ops : List WOp) (b : Buffer) (h : Inv b) :
    ∃ b', ops.foldlM (fun b op => op.run b) b = .ok b' ∧ Inv b' ∧
      abs b' = abs b ++ (ops.flatMap WOp.bits) := by
  induction ops generalizing b with
  | nil => exact ⟨b, rfl, h, by simp⟩
  | cons op ops ih =>
    have h1 : ∃ b₁, op.run b = .ok b₁ ∧ Inv b₁ ∧ abs b₁ = abs b ++ op.bits := by
      cases op with
      | bit v =>
        obtain ⟨b₁, e, hi, ha, _⟩ := writeBit_refines b h v
        exact ⟨b₁, e, hi, ha⟩
      | bitsLSB v n hn =>
        obtain ⟨b₁, e, hi, ha, _⟩ := writeBitsLSB_refines b h v n hn
        exact ⟨b₁, e, hi, ha⟩
    obtain ⟨b₁, e₁, hi₁, ha₁⟩ := h1
    obtain ⟨b₂, e₂, hi₂, ha₂⟩ := ih b₁ hi₁
    refine ⟨b₂, ?_, hi₂, ?_⟩
    · rw [List.foldlM_cons, e₁]; exact e₂
    · rw [ha₂, ha₁, List.flatMap_cons, List.append_assoc]

/-- from the empty buffer: length, byte image and no panic for every write sequence -/
theorem fifo_from_empty (ops : List WOp) :
    ∃ b', ops.foldlM (fun b op => op.run b) ({} : Buffer) = .ok b' ∧
      b'.len = (ops.flatMap WOp.bits).length ∧ b'.buf.toList = pack (ops.flatMap WOp.bits) := by
  obtain ⟨b', e, hi, ha⟩ := writes_refine ops {} inv_empty
  rw [abs_empty, List.nil_append] at ha
  exact ⟨b', e, by rw [len_eq b' hi, ha], by rw [bytes_are_packing b' hi, ha]⟩

/-- out-of-range widths are the only panics of WriteBitsLSB on a buffer satisfying the invariant -/
theorem writeBitsLSB_panics_iff (b : Buffer) (h : Inv b) (v : Nat) (n : Int) :
    (writeBitsLSB b v n).isPanic = true ↔ (n > 64 ∨ n < 0) := by
  by_cases h1 : n > 64
  · simp [writeBitsLSB, h1, Out.isPanic]
  · by_cases h2 : n < 0
    · simp [writeBitsLSB, h1, h2, Out.isPanic]
    · obtain ⟨b', e, _⟩ := writeBitsLSB_refines b h v n.toNat (by omega)
      rw [Int.toNat_of_nonneg (by omega)] at e
      simp [e, Out.isPanic, h1, h2]

/-! non-vacuity -/
example : ∃ b', (WOp.bitsLSB 1 3 (by decide)).run {} = .ok b' ∧ Inv b' := by
  obtain ⟨b', h1, h2, _⟩ := writeBitsLSB_refines {} inv_empty 1 3 (by decide)
  exact ⟨b', h1, h2⟩

/-! ## read side

The read cursor of the Go buffer is `(offset, read)`; in the spec it is the bit index
`8 * offset + read` into the byte image.  Reads do not touch `buf`/`wrote`, hence keep `Inv`/`abs`. -/

/-- the spec state a buffer stands for -/
def fifo (b : Buffer) : Fifo := { bits := abs b, cursor := 8 * b.offset + b.read }

theorem fifo_eq (b : Buffer) : fifo b = fifoOf b := rfl

/-- `ReadBit` returns what the spec returns (bit or EOF) and moves the cursor alike -/
theorem readBit_refines (b : Buffer) (h : Inv b) (hr : b.read < 8) :
    (fifo b).readBit = (fifo (readBit b).1, (readBit b).2) ∧
      (readBit b).1.buf = b.buf ∧ (readBit b).1.wrote = b.wrote ∧
      Inv (readBit b).1 ∧ (readBit b).1.read < 8 := by
  have hw := (inv_iff b).1 h
  obtain ⟨h1, h2, h3, _⟩ := readBit_spec b hw hr
  exact ⟨h1, h2.1, h2.2, (inv_iff _).2 (h2.winv hw), h3⟩

/-- `ReadBit` reports EOF exactly when every byte is consumed -/
theorem readBit_eof_iff (b : Buffer) (h : Inv b) (hr : b.read < 8) :
    (readBit b).2 = none ↔ b.offset ≥ b.buf.size :=
  (readBit_spec b ((inv_iff b).1 h) hr).2.2.2

/-- `ReadBits(n)`, 0 ≤ n ≤ 64, never panics, returns what the spec returns (EOF, or the bits read
MSB first and zero-extended to n bits when the read runs past the end) and moves the cursor alike -/
theorem readBits_refines (b : Buffer) (h : Inv b) (hr : b.read < 8) (n : Nat) (hn : n ≤ 64) :
    ∃ b' r, readBits b n = .ok (b', r) ∧ (fifo b).readBits n = (fifo b', r) ∧
      b'.buf = b.buf ∧ b'.wrote = b.wrote ∧ Inv b' ∧ b'.read < 8 := by
  have hw := (inv_iff b).1 h
  obtain ⟨b', r, h1, h2, h3, h4, _⟩ := readBits_spec b hw hr n hn
  exact ⟨b', r, h1, h2, h3.1, h3.2, (inv_iff _).2 (h3.winv hw), h4⟩

/-- `ReadBits` reports EOF exactly when every byte is consumed at the start of the read -/
theorem readBits_eof_iff (b : Buffer) (h : Inv b) (hr : b.read < 8) (n : Nat) (hn : n ≤ 64) :
    (∃ b', readBits b n = .ok (b', none)) ↔ b.offset ≥ b.buf.size := by
  obtain ⟨b', r, h1, _, _, _, h5⟩ := readBits_spec b ((inv_iff b).1 h) hr n hn
  rw [h1]
  constructor
  · rintro ⟨b'', e⟩
    cases e
    exact h5.1 rfl
  · intro hge
    exact ⟨b', by rw [h5.2 hge]⟩

/-- a read that starts before the end and runs past it: the bits left, zero-extended on the right
to n bits; the cursor stops at the end of the last byte -/
theorem readBits_zero_extends (b : Buffer) (hr : b.read < 8) (n : Nat) (hn : n ≤ 64)
    (hstart : b.offset < b.buf.size) (hpast : 8 * b.buf.size < 8 * b.offset + b.read + n) :
    ∃ b', readBits b n = .ok (b', some
        (toNat ((unpack b.buf.toList).drop (8 * b.offset + b.read)) *
          2 ^ (n - (8 * b.buf.size - (8 * b.offset + b.read))))) ∧
      b'.offset = b.buf.size ∧ b'.read = 0 ∧ b'.buf = b.buf ∧ b'.wrote = b.wrote := by
  obtain ⟨b', h1, h2, h3, h4⟩ := readBits_past_end b hr n hn hstart hpast
  exact ⟨b', h1, h2, h3, h4.1, h4.2⟩

/-- too long a width is the only panic of `ReadBits` -/
theorem readBits_panics_iff (b : Buffer) (n : Int) : (readBits b n).isPanic = true ↔ n > 64 :=
  Lemmas.Bits.readBits_panics_iff b n

/-! non-vacuity of the read side: 0xA0 = 101|00000 holding 3 bits -/
example : Inv { buf := #[0xA0], wrote := 3 } := by
  constructor <;> simp
example : readBits { buf := #[0xA0], wrote := 3 } 5 =
    .ok ({ buf := #[0xA0], wrote := 3, offset := 0, read := 5 }, some 20) := by decide
example : readBits { buf := #[0xA0], wrote := 3, read := 6 } 5 =
    .ok ({ buf := #[0xA0], wrote := 3, offset := 1, read := 0 }, some 0) := by decide
example : readBits { buf := #[0xA1], wrote := 0, read := 6 } 5 =
    .ok ({ buf := #[0xA1], wrote := 0, offset := 1, read := 0 }, some 8) := by decide

end QRV.Props.C16
