import QRV.Model.QR
import QRV.Model.Micro
import QRV.Model.RMQR
import QRV.Spec.Valid
/-
C01 — encode/decode round trip is the identity.

Stated about the symbol models (`Model.QR`, `Model.Micro`, `Model.RMQR`: function-for-function
models of the three packages, tied to the Go code by `bin/check C01`) under the standard's
validity predicate `Spec.Valid`.  The conclusion includes that encoding SUCCEEDS.
-/
namespace QRV.Props.C01
open QRV QRV.Model QRV.Model.Sym QRV.Spec.Valid

/-- QR versions 1-40: every valid description with non-empty segments encodes, and the bitmap
decodes to the same version, level and segment list, and to the same mask whenever one was
specified (with automatic masking: to the mask that was chosen, which is in range). -/
theorem roundtrip_QR (q : QRCode) (hv : QR.Valid q) (hne : NonEmptySegments q) :
    ∃ img m, Model.QR.encodeToBitmap q = .ok img ∧ (0 ≤ q.mask → m = q.mask) ∧ 0 ≤ m ∧ m ≤ 7 ∧
      Model.QR.decodeBitmap img = .ok { q with mask := m } := by
  sorry

end QRV.Props.C01
