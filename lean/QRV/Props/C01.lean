import QRV.Model.QR
import QRV.Model.Micro
import QRV.Model.RMQR
import QRV.Spec.Valid
import QRV.Lemmas.RTFinal
/-
C01 — encode/decode round trip is the identity.

Stated about the symbol models (`Model.QR`, `Model.Micro`, `Model.RMQR`: function-for-function
models of the three packages, tied to the Go code by `bin/check C01`) under the standard's
validity predicate `Spec.Valid`.  The conclusion includes that encoding SUCCEEDS.

QR (this file): proved in full.  The proof lives in `QRV/Lemmas/RT*.lean` (generic lemmas) and
`QRV/Lemmas/RTFin*.lean` (kernel evaluation over the generated tables); its components are restated
below as theorems of their own.
-/
namespace QRV.Props.C01
open QRV QRV.Model QRV.Model.Sym QRV.Spec.Valid

/-- QR versions 1-40: every valid description with non-empty segments encodes, and the bitmap
decodes to the same version, level and segment list, and to the same mask whenever one was
specified (with automatic masking: to the mask that was chosen, which is in range). -/
theorem roundtrip_QR (q : QRCode) (hv : QR.Valid q) (hne : NonEmptySegments q) :
    ∃ img m, Model.QR.encodeToBitmap q = .ok img ∧ (0 ≤ q.mask → m = q.mask) ∧ 0 ≤ m ∧ m ≤ 7 ∧
      Model.QR.decodeBitmap img = .ok { q with mask := m } := by
  have _ := hne  -- not needed for QR: an empty segment decodes as an empty segment
  exact QRV.Lemmas.RT.roundtrip_core q hv

/-- the same without the non-emptiness hypothesis -/
theorem roundtrip_QR_any (q : QRCode) (hv : QR.Valid q) :
    ∃ img m, Model.QR.encodeToBitmap q = .ok img ∧ (0 ≤ q.mask → m = q.mask) ∧ 0 ≤ m ∧ m ≤ 7 ∧
      Model.QR.decodeBitmap img = .ok { q with mask := m } :=
  QRV.Lemmas.RT.roundtrip_core q hv

/-! ## components -/

section components
open QRV.Model.Bits QRV.Model.Bitmap QRV.Spec.Bits QRV.Spec.Tables QRV.Lemmas.RT

/-- A. the data stream is the standard's: segments (mode, count, data), terminator (only when more
than four bits are free), zero bits to the byte boundary, pad codewords EC/11 up to the capacity -/
theorem stream_layout_QR (q : QRCode) (hv : QR.Valid q) :
    ∃ buf, Model.QR.encodeSegments q {} = .ok buf ∧ C16.Inv buf ∧
      buf.len = 8 * dataCodewords q.version.toNat q.level.toNat ∧
      C16.abs buf = q.segments.flatMap (segStream q.version.toNat) ++
        streamTail (8 * dataCodewords q.version.toNat q.level.toNat)
          (q.segments.flatMap (segStream q.version.toNat)).length ∧
      buf.wrote = 0 ∧ buf.offset = 0 ∧ buf.read = 0 :=
  stream_layout q hv

/-- F. the segment loop parses such a stream back, whatever admissible tail follows -/
theorem segments_parse_QR (n : Nat) (h1 : 1 ≤ n) (h40 : n ≤ 40) (segs : List Segment)
    (hs : ∀ s ∈ segs, SegOK n s) (tail : List Bool) (ht : TailOK tail)
    (bytes : List Nat) (hb : ∀ x ∈ bytes, x < 256)
    (himg : unpack bytes = segs.flatMap (segStream n) ++ tail)
    (acc : Array Segment) (fuel : Nat) (hf : segs.length < fuel) :
    Model.QR.segmentLoop (n : Int) fuel { buf := bytes.toArray } acc = .ok (acc.toList ++ segs) :=
  segments_parse n h1 h40 segs hs tail ht bytes hb himg acc fuel hf

/-- A+F. encode the segments, parse the codewords: the segments -/
theorem stream_roundtrip_QR (q : QRCode) (hv : QR.Valid q) :
    ∃ buf, Model.QR.encodeSegments q {} = .ok buf ∧
      buf.buf.size = dataCodewords q.version.toNat q.level.toNat ∧
      (∀ b ∈ buf.buf.toList, b < 256) ∧
      Model.QR.segmentLoop q.version (buf.buf.size * 8 + 8) { buf := buf.buf } #[] = .ok q.segments :=
  stream_roundtrip q hv

/-- B. the block split succeeds on every table row: consecutive chunks with their RS parity -/
theorem split_blocks_QR (v l : Nat) (h1 : 1 ≤ v) (h40 : v ≤ 40) (hl : l < 4) (cap : Gen.GCap)
    (hcap : (Gen.QR.capacityTable[v]?.getD [])[l]? = some cap)
    (data : List Nat) (hlen : data.length = cap.data) (hb : ∀ b ∈ data, b < 256) :
    ∃ blks, splitBlocks cap.blocks data = .ok blks ∧
      blks = encBlocks (sizesOf cap.blocks) data ∧
      blks.map (fun b => (b.1.length, b.2.length)) = sizesOf cap.blocks ∧
      blks.flatMap (·.1) = data ∧
      ∀ b ∈ blks, (∀ x ∈ b.1, x < 256) ∧ (∀ x ∈ b.2, x < 256) ∧ RS.parity b.2.length b.1 = .ok b.2 :=
  splitBlocks_ok v l h1 h40 hl cap hcap data hlen hb

/-- B. interleaving writes the codewords row by row -/
theorem interleave_spec_QR (blocks : List (List Nat × List Nat))
    (hb : ∀ b ∈ blocks, (∀ x ∈ b.1, x < 256) ∧ ∀ x ∈ b.2, x < 256)
    (ret : Buffer) (hret : C16.Inv ret) :
    ∃ buf, interleave blocks ret = .ok buf ∧ C16.Inv buf ∧
      C16.abs buf = C16.abs ret ++ unpack (ilvList blocks) ∧
      buf.offset = ret.offset ∧ buf.read = ret.read :=
  interleave_spec blocks hb ret hret

/-- E. `deinterleave ∘ interleave = id` on the block structure of every table row -/
theorem deinterleave_interleave_QR (v l : Nat) (h1 : 1 ≤ v) (h40 : v ≤ 40) (hl : l < 4) (cap : Gen.GCap)
    (hcap : (Gen.QR.capacityTable[v]?.getD [])[l]? = some cap)
    (blks : List (List Nat × List Nat))
    (hmap : blks.map (fun b => (b.1.length, b.2.length)) = sizesOf cap.blocks)
    (hall : ∀ b ∈ blks, (∀ x ∈ b.1, x < 256) ∧ ∀ x ∈ b.2, x < 256) :
    ∃ ibuf, interleave blks {} = .ok ibuf ∧ C16.Inv ibuf ∧
      ibuf.wrote = 0 ∧ ibuf.offset = 0 ∧ ibuf.read = 0 ∧
      ibuf.buf.toList = ilvList blks ∧ ibuf.buf.size = cap.total ∧
      ∀ extra : List Nat, deinterleave cap.blocks cap.data cap.total (ibuf.buf.toList ++ extra) = .ok blks :=
  deinterleave_interleave v l h1 h40 hl cap hcap blks hmap hall

/-- E. every block of the encoder passes the Reed-Solomon decoder unchanged -/
theorem clean_blocks_pass_QR (v l : Nat) (h1 : 1 ≤ v) (h40 : v ≤ 40) (hl : l < 4) (cap : Gen.GCap)
    (hcap : (Gen.QR.capacityTable[v]?.getD [])[l]? = some cap)
    (data : List Nat) (hlen : data.length = cap.data) (hb : ∀ b ∈ data, b < 256) :
    ∃ blks, splitBlocks cap.blocks data = .ok blks ∧
      (∀ b ∈ blks, RS.decode (b.1 ++ b.2) (Model.QR.RS_SYNDROMES b.2.length) = .ok (b.1 ++ b.2)) ∧
      rsLoop blks = .ok (blks.flatMap (·.1)).toArray ∧ rsLoop blks = .ok data.toArray :=
  clean_blocks_pass v l h1 h40 hl cap hcap data hlen hb

/-- B+E. blocks: split, interleave, de-interleave, error-correct: the data -/
theorem blocks_roundtrip_QR (v l : Nat) (h1 : 1 ≤ v) (h40 : v ≤ 40) (hl : l < 4) (cap : Gen.GCap)
    (hcap : (Gen.QR.capacityTable[v]?.getD [])[l]? = some cap)
    (data : List Nat) (hlen : data.length = cap.data) (hb : ∀ b ∈ data, b < 256) :
    ∃ blks ibuf, splitBlocks cap.blocks data = .ok blks ∧ interleave blks {} = .ok ibuf ∧
      C16.Inv ibuf ∧ ibuf.wrote = 0 ∧ ibuf.offset = 0 ∧ ibuf.read = 0 ∧
      ibuf.buf.size = cap.total ∧
      (∀ extra : List Nat, deinterleave cap.blocks cap.data cap.total (ibuf.buf.toList ++ extra) = .ok blks) ∧
      rsLoop blks = .ok data.toArray :=
  blocks_roundtrip v l h1 h40 hl cap hcap data hlen hb

/-- C. the placement loop writes bit k of the buffer at the k-th coordinate of the walk -/
theorem placeLoop_is_walk_QR (used : Image) (f : Int → Int → Bool) (hf : ∀ x y, used.binaryAt x y = .ok (f x y))
    (w : Int) (fuel : Nat) (s : Walk) (cs : List (Int × Int)) (buf : Buffer) (img : Image)
    (hw : walk f w fuel s = some cs) (hi : C16.Inv buf) (hr : buf.read < 8) :
    Model.QR.placeLoop used w fuel s buf img =
      (cs.zip (C17.unread buf)).foldlM (fun im p => im.setBinary p.1.1 p.1.2 p.2) img :=
  placeLoop_eq used f hf w fuel s cs buf img hw hi hr

/-- C. the reading loop appends the colours of the coordinates of the walk in order -/
theorem readLoop_is_walk_QR (used img : Image) (f g : Int → Int → Bool)
    (hf : ∀ x y, used.binaryAt x y = .ok (f x y)) (hg : ∀ x y, img.binaryAt x y = .ok (g x y))
    (w : Int) (fuel : Nat) (s : Walk) (cs : List (Int × Int)) (buf : Buffer)
    (hw : walk f w fuel s = some cs) (hi : C16.Inv buf) :
    ∃ buf', Model.QR.readLoop used img w fuel s buf = .ok buf' ∧ C16.Inv buf' ∧
      C16.abs buf' = C16.abs buf ++ cs.map (fun c => g c.1 c.2) :=
  readLoop_eq used img f g hf hg w fuel s cs buf hw hi

/-- C. the coordinates are pairwise distinct, inside the symbol, and not function modules -/
theorem walk_sound_QR (f : Int → Int → Bool) (w : Int) (hw : 0 ≤ w) (fuel : Nat) (cs : List (Int × Int))
    (h : walk f w fuel (start w) = some cs) :
    cs.Nodup ∧ ∀ c ∈ cs, 0 ≤ c.1 ∧ c.1 ≤ w ∧ 0 ≤ c.2 ∧ c.2 ≤ w ∧ f c.1 c.2 = false :=
  walk_sound f w hw fuel cs h

/-- C. every version: the model's fuel suffices and there is room for all codewords -/
theorem walk_version_QR (v : Nat) (h1 : 1 ≤ v) (h40 : v ≤ 40) :
    ∃ cs, walk (usedFn v) (16 + 4 * (v : Int)) (fuelOf (16 + 4 * (v : Int))) (start (16 + 4 * (v : Int))) = some cs ∧
      8 * totalCodewords v ≤ cs.length :=
  walk_version v h1 h40

/-- C. placement: after the loop, module cs[k] holds bit k of the interleaved stream -/
theorem placement_QR (v : Nat) (base used : Image)
    (hrb : C18.Regular base (17 + 4 * v) (17 + 4 * v))
    (hbin : ∀ x y, used.binaryAt x y = .ok (usedFn v x y)) (ibuf : Buffer) (hinv : C16.Inv ibuf)
    (hoff : ibuf.offset = 0) (hread : ibuf.read = 0) (cs : List (Int × Int))
    (hwalk : walk (usedFn v) (16 + 4 * (v : Int)) (fuelOf (16 + 4 * (v : Int))) (start (16 + 4 * (v : Int))) = some cs)
    (hlen : 8 * ibuf.buf.toList.length ≤ cs.length) :
    ∃ img1, Model.QR.placeLoop used (16 + 4 * (v : Int)) ((16 + 4 * (v : Int) + 3) * (16 + 4 * (v : Int) + 3)).toNat
        { x := 16 + 4 * (v : Int), y := 16 + 4 * (v : Int), dy := -1 } ibuf base = .ok img1 ∧
      C18.Regular img1 (17 + 4 * v) (17 + 4 * v) ∧
      ∀ k (hk : k < 8 * ibuf.buf.toList.length),
        C18.px img1 (cs[k]'(by omega)).1.toNat (cs[k]'(by omega)).2.toNat =
          (unpack ibuf.buf.toList)[k]'(by simpa using hk) :=
  placement_spec v base used hrb hbin ibuf hinv hoff hread cs hwalk hlen

/-- D. the base, used and mask bitmaps of a valid version are regular images; the used bitmap
answers `usedFn` -/
theorem version_images_QR (v : Nat) (h1 : 1 ≤ v) (h40 : v ≤ 40) :
    imgAt Model.QR.baseList (v : Int) = .ok (some (Image.ofGen (baseGen v))) ∧
    imgAt Model.QR.usedList (v : Int) = .ok (some (Image.ofGen (usedGen v))) ∧
    C18.Regular (Image.ofGen (baseGen v)) (17 + 4 * v) (17 + 4 * v) ∧
    C18.Regular (Image.ofGen (usedGen v)) (17 + 4 * v) (17 + 4 * v) ∧
    ∀ x y, (Image.ofGen (usedGen v)).binaryAt x y = .ok (usedFn v x y) :=
  version_images v h1 h40

/-- D. `placeFormat` only writes function modules, and its first copy holds the word -/
theorem format_write_QR (v : Nat) (h1 : 1 ≤ v) (h40 : v ≤ 40) (img : Image)
    (hr : C18.Regular img (17 + 4 * v) (17 + 4 * v)) (fmt : Nat) :
    ∃ img', Model.QR.placeFormat img (16 + 4 * (v : Int)) fmt = .ok img' ∧
      C18.Regular img' (17 + 4 * v) (17 + 4 * v) ∧
      (∀ x y : Nat, x < 17 + 4 * v → y < 17 + 4 * v → usedFn v (x : Int) (y : Int) = false →
        C18.px img' x y = C18.px img x y) ∧
      (∀ i : Nat, i < 8 → C18.px img' 8 (sk i) = fmt.testBit i ∧ C18.px img' (sk i) 8 = fmt.testBit (14 - i)) :=
  placeFormat_spec v h1 h40 img hr fmt

/-- D. reading the format information: a first copy holding table entry idx gives (idx/8, idx%8) -/
theorem format_roundtrip_QR (img : Image) (n : Nat) (hr : C18.Regular img n n) (hn : 9 ≤ n) (idx c : Nat)
    (hidx : idx < 32) (hc : Gen.QR.encodedFormat[idx]? = some c)
    (h1 : ∀ i : Nat, i < 8 → C18.px img 8 (sk i) = c.testBit i)
    (h2 : ∀ i : Nat, i < 8 → C18.px img (sk i) 8 = c.testBit (14 - i)) :
    Model.QR.decodeFormat img = .ok (((idx >>> 3 : Nat) : Int), ((idx &&& 7 : Nat) : Int)) :=
  decodeFormat_first img n hr hn idx c hidx hc h1 h2

/-- D. the version information loop only writes function modules -/
theorem version_write_QR (v : Nat) (h1 : 1 ≤ v) (h40 : v ≤ 40) (img : Image)
    (hr : C18.Regular img (17 + 4 * v) (17 + 4 * v)) :
    ∃ img', versionStep (v : Int) (16 + 4 * (v : Int)) img = .ok img' ∧
      C18.Regular img' (17 + 4 * v) (17 + 4 * v) ∧
      ∀ x y : Nat, x < 17 + 4 * v → y < 17 + 4 * v → usedFn v (x : Int) (y : Int) = false →
        C18.px img' x y = C18.px img x y :=
  versionStep_spec v h1 h40 img hr

/-- D. the penalty score never fails on a regular image -/
theorem point_total_QR (i : Image) (w h : Nat) (hr : C18.Regular i w h) : ∃ n, i.point = .ok n :=
  point_ok i w h hr

/-- D. the mask choice (explicit, or the automatic loop whatever the scores are) yields a mask 0..7 -/
theorem mask_choice_QR (v l : Nat) (h1 : 1 ≤ v) (h40 : v ≤ 40) (hl : l < 4) (mask : Int)
    (hm1 : -1 ≤ mask) (hm7 : mask ≤ 7) (used img : Image)
    (hru : C18.Regular used (17 + 4 * v) (17 + 4 * v)) (hr : C18.Regular img (17 + 4 * v) (17 + 4 * v)) :
    ∃ m : Nat, m < 8 ∧ chooseMask mask (l : Int) (16 + 4 * (v : Int)) used img = .ok (m : Int) ∧
      (0 ≤ mask → (m : Int) = mask) :=
  chooseMask_spec v l h1 h40 hl mask hm1 hm7 used img hru hr

end components

end QRV.Props.C01
