import QRV.Props.C14Complete
import QRV.Model.QR
import QRV.Model.Micro
import QRV.Model.RMQR
import QRV.Lemmas.Finite
/-
C03 — decoders correct damage up to the symbol's rated error-correction capacity.

The per-block statement is a theorem: every Reed-Solomon block of every (version, level) row of the
three capacity tables has a parity length n in 2..68, the decoders hand exactly n to
`reedsolomon.Decode` (`RS_SYNDROMES`), the tabulated rated capacity never exceeds floor(n/2), and
`C14.dec_complete` restores every word within floor(n/2) of a codeword.  Lifting this through
placement and de-interleaving to whole damaged bitmaps is exercised by `bin/check C03` on every
configuration (see C01 for the proved components of that lifting).
-/
namespace QRV.Props.C03
open QRV QRV.Model QRV.Props.C14

set_option maxRecDepth 100000

/-- every block of a capacity row: 2 ≤ parity ≤ 68, rated errors ≤ floor(parity / 2), block ≤ 255 codewords -/
def rowOK (c : Gen.GCap) : Bool :=
  c.blocks.all fun b => decide (b.data ≤ b.total) && decide (2 ≤ b.total - b.data) && decide (b.total - b.data ≤ 68) &&
    decide (b.maxError ≤ (b.total - b.data) / 2) && decide (b.total ≤ 255)

theorem qr_rows : (Gen.QR.capacityTable.drop 1).all (fun row => row.all rowOK) = true := by decide +kernel
theorem rmqr_rows : Gen.RMQR.capacityTable.all (fun row => row.all rowOK) = true := by decide +kernel
/-- Micro QR has one block per symbol; only the 8 legal (version, level) pairs have a row -/
theorem micro_rows :
    [(1, 2), (2, 1), (2, 0), (3, 1), (3, 0), (4, 1), (4, 0), (4, 3)].all (fun (p : Nat × Nat) =>
      match (Gen.Micro.capacityTable[p.1]?.getD [])[p.2]? with
      | some c => rowOK c && c.correction == (c.blocks.head?.map fun b => b.total - b.data).getD 0
      | none => false) = true := by decide +kernel

/-- the decoders ask for as many syndromes as the block has parity codewords -/
theorem qr_syndromes (parity : Nat) : Model.QR.RS_SYNDROMES parity = (parity : Int) := rfl
theorem rmqr_syndromes (parity : Nat) : Model.RMQR.RS_SYNDROMES parity = (parity : Int) := rfl
theorem micro_syndromes (c : Gen.GCap) : Model.Micro.RS_SYNDROMES c = (c.correction : Int) := rfl

/-- per-block correction, for every block of every row: a received block within the RATED number of
wrong codewords of the conformant block (data ++ parity as the encoder computes it) is restored
exactly.  `t` is the tabulated `maxError` of the block. -/
theorem block_corrected (b : Gen.GBlock) (hb : (decide (b.data ≤ b.total) && decide (2 ≤ b.total - b.data) &&
      decide (b.total - b.data ≤ 68) && decide (b.maxError ≤ (b.total - b.data) / 2) && decide (b.total ≤ 255)) = true)
    (msg r : List Nat) (hm : Bytes msg) (hr : Bytes r) (hlen : msg.length = b.data) :
    ∃ par, RS.parity (b.total - b.data) msg = .ok par ∧
      (r.length = b.total → dist (msg ++ par) r ≤ b.maxError →
        RS.decode r ((b.total - b.data : Nat) : Int) = .ok (msg ++ par)) := by
  simp only [Bool.and_eq_true, decide_eq_true_eq] at hb
  obtain ⟨⟨⟨⟨h1, h2⟩, h3⟩, h4⟩, h5⟩ := hb
  obtain ⟨par, hp, hpl, hpb, hz⟩ := C13.parity_is_codeword (b.total - b.data) h2 h3 msg hm
  refine ⟨par, hp, fun hrl hd => ?_⟩
  have hc : Codeword (b.total - b.data) (msg ++ par) := by
    intro i hi
    rw [Nat.mod_eq_of_lt (by omega), QRV.Lemmas.GF.exp_eq_pow2 i (by omega)]
    exact hz i hi
  have hbytes : Bytes (msg ++ par) := by
    intro x hx
    rcases List.mem_append.mp hx with h | h
    · exact hm x h
    · exact hpb x h
  have hl : (msg ++ par).length = r.length := by
    rw [List.length_append, hlen, hpl, hrl]; omega
  have hL : (msg ++ par).length ≤ 255 := by rw [hl, hrl]; exact h5
  exact dec_complete (b.total - b.data) (msg ++ par) r h2 h3 hbytes hr hl hL hc (Nat.le_trans hd h4)

/-! non-vacuity: QR 1-M (16 data + 10 parity codewords, rated 4) -/
example : ((Gen.QR.capacityTable[1]?.getD [])[0]?.map rowOK) = some true := by decide +kernel

end QRV.Props.C03
