import QRV.Props.C01
import QRV.Props.C14
import QRV.Lemmas.DecQR
import QRV.Lemmas.DecMicro
import QRV.Lemmas.DecRMQR
/-
C06 — decoders are total: any bitmap yields a result or an error, never a panic.

Stated about the decoder models, in which every index expression, nil dereference, slice bound and
explicit panic of the Go code is an explicit `Out.panic` branch, and every loop has explicit fuel
whose exhaustion is a panic outcome (so "no panic" includes termination).
`WellFormed img` is what `bitmap.New(rect)` + `SetBinary` can build: Stride = ceil(Dx/8), Stride*Dy bytes.
-/
namespace QRV.Props.C06
open QRV QRV.Model QRV.Model.Sym QRV.Model.Bitmap

structure WellFormed (img : Image) : Prop where
  dx : 0 ≤ img.dx
  dy : 0 ≤ img.dy
  stride : img.stride = (img.dx + 7).tdiv 8
  size : (img.pix.size : Int) = img.stride * img.dy
  bytes : ∀ b ∈ img.pix.toList, b < 256

theorem WellFormed.wf {img : Image} (h : WellFormed img) : Lemmas.Dec.WF img :=
  ⟨h.dx, h.dy, h.stride, h.size, h.bytes⟩

/-- QR: a bitmap that is not square of side 21, 25, …, 177 is answered with an error before any
table is indexed -/
theorem qr_wrong_size_error (img : Image)
    (h : img.dx ≠ img.dy ∨ img.dx < 21 ∨ img.dx > 177 ∨ (img.dx - 17).tmod 4 ≠ 0) :
    (Model.QR.decodeBitmap img).isErr = true := by
  obtain ⟨m, e⟩ := Lemmas.Dec.qr_wrong_size img h
  rw [e]; rfl

/-- QR: DecodeBitmap never panics and always terminates, for every bitmap whatsoever (any size, any
origin, any contents) -/
theorem qr_decode_total (img : Image) (hw : WellFormed img) :
    (Model.QR.decodeBitmap img).isPanic = false :=
  (Lemmas.Dec.qr_decodeBitmap_sat img hw.wf).not_panic

/-- Micro QR: a bitmap whose size is not that of the version named by its format information is
answered with an error -/
theorem micro_decode_total_on_wrong_size (img : Image) (hw : WellFormed img)
    (h : ¬ (img.dx = img.dy ∧ (img.dx = 11 ∨ img.dx = 13 ∨ img.dx = 15 ∨ img.dx = 17))) :
    (Model.Micro.decodeBitmap img).isErr = true :=
  Lemmas.Dec.micro_wrong_size img hw.wf h

/-- rMQR: a bitmap whose size is none of the 32 rMQR sizes is answered with an error -/
theorem rmqr_decode_total_on_wrong_size (img : Image) (hw : WellFormed img)
    (h : ∀ v, v < 32 → ¬ (img.dx = (Spec.Patterns.RMQR.width v : Nat) ∧ img.dy = (Spec.Patterns.RMQR.height v : Nat))) :
    (Model.RMQR.decodeBitmap img).isErr = true :=
  Lemmas.Dec.rmqr_wrong_size img hw.wf h

/-- the Reed-Solomon step never panics and terminates (imported from C14) -/
theorem rs_step_total (data : List Nat) (hd : C14.Bytes data) (n : Nat) : (RS.decode data n).isPanic = false :=
  C14.dec_no_panic data hd n

/-! non-vacuity -/
example : WellFormed (Image.new 0 0 21 21) := by
  constructor <;> decide +kernel

end QRV.Props.C06
