import QRV.Props.C01RMQR
import QRV.Props.C02
import QRV.Spec.SymbolRMQR
import QRV.Lemmas.SymRWalk2
import QRV.Lemmas.SymRFin1
import QRV.Lemmas.SymRFinal
/-
C02 — rMQR: the emitted symbol against the declarative symbol of the description
(`Spec.Symbol.RMQR.IsSymbol`), module by module.  Finding D18 stated exactly: the library's placement
walk is the standard's order WITHOUT the data modules of column 1 (which the standard visits last);
so every module outside column 1 is the standard's, a column-1 data module carries a 0 bit, and for
the versions in which column 1 would only carry remainder bits the emitted symbol IS the standard's.
-/
namespace QRV.Props.C02
open QRV QRV.Model QRV.Model.Sym QRV.Model.Bitmap QRV.Spec.Valid QRV.Spec.Symbol.RMQR
open QRV.Spec.Patterns.RMQR (width height isFunction)

/-- the placement order of the model's walk is the standard's without the column-1 modules -/
theorem rmqr_walk_is_standard_without_column1 (v : Nat) (hv : v < 32) (cs : List (Int × Int))
    (h : Lemmas.RR.walk (Lemmas.RR.usedFn v) ((height v : Int) - 1)
      (Lemmas.RR.fuelOf ((width v : Int) - 1) ((height v : Int) - 1))
      (Lemmas.RR.start ((width v : Int) - 1) ((height v : Int) - 1)) = some cs) :
    cs.map (fun c => (c.1.toNat, c.2.toNat)) = (dataCoords v).filter (fun c => c.1 != 1) ∧
      ∀ c ∈ cs, 0 ≤ c.1 ∧ 0 ≤ c.2 :=
  Lemmas.SymRWalk.walk_standard v hv cs h

/-- in the standard's order the column-1 modules come last -/
theorem rmqr_column1_last (v : Nat) (hv : v < 32) :
    dataCoords v = (dataCoords v).filter (fun c => c.1 != 1) ++ (dataCoords v).filter (fun c => c.1 == 1) :=
  Lemmas.SymRWalk.column1_last v hv

/-- every valid description: the emitted bitmap agrees with the standard's symbol on every module
that is not a data module of column 1, and a data module of column 1 carries a 0 bit (mask only) -/
theorem rmqr_symbol_except_column1 (q : QRCode) (hv : RMQR.Valid q) :
    ∃ img px, Model.RMQR.encodeToBitmap q = .ok img ∧
      C18.Regular img (width q.version.toNat) (height q.version.toNat) ∧ IsSymbol q px ∧
      (∀ x y, x < width q.version.toNat → y < height q.version.toNat →
        (x ≠ 1 ∨ isFunction q.version.toNat x y = true) → C18.px img x y = px x y) ∧
      (∀ y, y < height q.version.toNat → isFunction q.version.toNat 1 y = false →
        C18.px img 1 y = maskCond y 1) :=
  Lemmas.SymRFinal.symbol_except_column1 q hv

/-- when the modules outside column 1 hold all 8 * total codeword bits (column 1 would only carry
remainder bits) the emitted bitmap IS the standard's symbol -/
theorem rmqr_symbol_exact (q : QRCode) (hv : RMQR.Valid q) (c : Gen.GCap)
    (hc : RMQR.row q.version.toNat q.level.toNat = some c)
    (hfull : 8 * c.total ≤ ((dataCoords q.version.toNat).filter (fun c => c.1 != 1)).length) :
    ∃ img, Model.RMQR.encodeToBitmap q = .ok img ∧
      C18.Regular img (width q.version.toNat) (height q.version.toNat) ∧ IsSymbol q (C18.px img) :=
  Lemmas.SymRFinal.symbol_exact q hv c hc hfull

/-- the versions for which `rmqr_symbol_exact` applies (both levels): all but the 11 of finding D18 -/
theorem rmqr_exact_versions :
    (List.range 32).filter (fun v => (Gen.RMQR.capacityTable[v]?.getD []).all fun c =>
      decide (8 * c.total ≤ ((dataCoords v).filter (fun c => c.1 != 1)).length)) =
    [0, 1, 2, 3, 4, 5, 6, 7, 8, 9, 10, 11, 13, 14, 15, 16, 18, 19, 20, 24, 25] :=
  Lemmas.SymRFin.exact_versions

end QRV.Props.C02
