import QRV.Lemmas.Pat.QR1
import QRV.Lemmas.Pat.QR2
import QRV.Lemmas.Pat.QR3
import QRV.Lemmas.Pat.QR4
import QRV.Lemmas.Pat.QR5
import QRV.Lemmas.Pat.QR6
import QRV.Lemmas.Pat.QR7
import QRV.Lemmas.Pat.QR8
import QRV.Lemmas.Pat.QRMask1
import QRV.Lemmas.Pat.QRMask2
import QRV.Lemmas.Pat.Micro
import QRV.Lemmas.Pat.RMQR
import QRV.Lemmas.TablesFinite
import QRV.Props.C11
import QRV.Props.C13
/-
C02 — emitted symbols conform to ISO/IEC 18004 and ISO/IEC 23941.

This file holds the TABLE half of conformance as theorems: every bitmap, mask canvas, capacity row,
BCH word and Reed-Solomon coder the encoders draw from is the one the standard prescribes, for every
version of every symbology (kernel evaluation of the complete regenerated tables against
declarative specifications written from the standards: `Spec.Patterns`, `Spec.Tables`, `Spec.BCH`,
`Spec.RS`).  The ALGORITHM half (bit stream, block split, interleaving, placement order, masking of
a concrete message) is compared module for module with an independently written reference encoder
and reader by `bin/check C02` (checks/refqr.py, refmicro.py, refrmqr.py); see DESIGN.md.
-/
namespace QRV.Props.C02
open QRV QRV.Spec.Patterns QRV.Spec.Tables

/-- QR: finder/separator/timing/alignment patterns and the reserved format/version areas of every
version 1-40 are where the standard puts them (base bitmap = dark function modules, used bitmap =
all function modules), and the bitmaps have the standard's size. -/
theorem qr_function_patterns (v : Nat) (h1 : 1 ≤ v) (h40 : v ≤ 40) :
    ∃ b u, Gen.QR.baseList[v]? = some b ∧ Gen.QR.usedList[v]? = some u ∧
      b.rows = QR.baseRows v ∧ u.rows = QR.usedRows v ∧
      (b.maxX = (QR.size v : Nat) ∧ b.maxY = (QR.size v : Nat) ∧ b.minX = 0 ∧ b.minY = 0 ∧
        b.stride = (QR.size v + 7) / 8 ∧ u = { b with rows := u.rows }) :=
  match v, h1, h40 with
  | 1, _, _ => ⟨_, _, rfl, rfl, Lemmas.Pat.qr_base_1, Lemmas.Pat.qr_used_1, Lemmas.Pat.qr_geom_1⟩
  | 2, _, _ => ⟨_, _, rfl, rfl, Lemmas.Pat.qr_base_2, Lemmas.Pat.qr_used_2, Lemmas.Pat.qr_geom_2⟩
  | 3, _, _ => ⟨_, _, rfl, rfl, Lemmas.Pat.qr_base_3, Lemmas.Pat.qr_used_3, Lemmas.Pat.qr_geom_3⟩
  | 4, _, _ => ⟨_, _, rfl, rfl, Lemmas.Pat.qr_base_4, Lemmas.Pat.qr_used_4, Lemmas.Pat.qr_geom_4⟩
  | 5, _, _ => ⟨_, _, rfl, rfl, Lemmas.Pat.qr_base_5, Lemmas.Pat.qr_used_5, Lemmas.Pat.qr_geom_5⟩
  | 6, _, _ => ⟨_, _, rfl, rfl, Lemmas.Pat.qr_base_6, Lemmas.Pat.qr_used_6, Lemmas.Pat.qr_geom_6⟩
  | 7, _, _ => ⟨_, _, rfl, rfl, Lemmas.Pat.qr_base_7, Lemmas.Pat.qr_used_7, Lemmas.Pat.qr_geom_7⟩
  | 8, _, _ => ⟨_, _, rfl, rfl, Lemmas.Pat.qr_base_8, Lemmas.Pat.qr_used_8, Lemmas.Pat.qr_geom_8⟩
  | 9, _, _ => ⟨_, _, rfl, rfl, Lemmas.Pat.qr_base_9, Lemmas.Pat.qr_used_9, Lemmas.Pat.qr_geom_9⟩
  | 10, _, _ => ⟨_, _, rfl, rfl, Lemmas.Pat.qr_base_10, Lemmas.Pat.qr_used_10, Lemmas.Pat.qr_geom_10⟩
  | 11, _, _ => ⟨_, _, rfl, rfl, Lemmas.Pat.qr_base_11, Lemmas.Pat.qr_used_11, Lemmas.Pat.qr_geom_11⟩
  | 12, _, _ => ⟨_, _, rfl, rfl, Lemmas.Pat.qr_base_12, Lemmas.Pat.qr_used_12, Lemmas.Pat.qr_geom_12⟩
  | 13, _, _ => ⟨_, _, rfl, rfl, Lemmas.Pat.qr_base_13, Lemmas.Pat.qr_used_13, Lemmas.Pat.qr_geom_13⟩
  | 14, _, _ => ⟨_, _, rfl, rfl, Lemmas.Pat.qr_base_14, Lemmas.Pat.qr_used_14, Lemmas.Pat.qr_geom_14⟩
  | 15, _, _ => ⟨_, _, rfl, rfl, Lemmas.Pat.qr_base_15, Lemmas.Pat.qr_used_15, Lemmas.Pat.qr_geom_15⟩
  | 16, _, _ => ⟨_, _, rfl, rfl, Lemmas.Pat.qr_base_16, Lemmas.Pat.qr_used_16, Lemmas.Pat.qr_geom_16⟩
  | 17, _, _ => ⟨_, _, rfl, rfl, Lemmas.Pat.qr_base_17, Lemmas.Pat.qr_used_17, Lemmas.Pat.qr_geom_17⟩
  | 18, _, _ => ⟨_, _, rfl, rfl, Lemmas.Pat.qr_base_18, Lemmas.Pat.qr_used_18, Lemmas.Pat.qr_geom_18⟩
  | 19, _, _ => ⟨_, _, rfl, rfl, Lemmas.Pat.qr_base_19, Lemmas.Pat.qr_used_19, Lemmas.Pat.qr_geom_19⟩
  | 20, _, _ => ⟨_, _, rfl, rfl, Lemmas.Pat.qr_base_20, Lemmas.Pat.qr_used_20, Lemmas.Pat.qr_geom_20⟩
  | 21, _, _ => ⟨_, _, rfl, rfl, Lemmas.Pat.qr_base_21, Lemmas.Pat.qr_used_21, Lemmas.Pat.qr_geom_21⟩
  | 22, _, _ => ⟨_, _, rfl, rfl, Lemmas.Pat.qr_base_22, Lemmas.Pat.qr_used_22, Lemmas.Pat.qr_geom_22⟩
  | 23, _, _ => ⟨_, _, rfl, rfl, Lemmas.Pat.qr_base_23, Lemmas.Pat.qr_used_23, Lemmas.Pat.qr_geom_23⟩
  | 24, _, _ => ⟨_, _, rfl, rfl, Lemmas.Pat.qr_base_24, Lemmas.Pat.qr_used_24, Lemmas.Pat.qr_geom_24⟩
  | 25, _, _ => ⟨_, _, rfl, rfl, Lemmas.Pat.qr_base_25, Lemmas.Pat.qr_used_25, Lemmas.Pat.qr_geom_25⟩
  | 26, _, _ => ⟨_, _, rfl, rfl, Lemmas.Pat.qr_base_26, Lemmas.Pat.qr_used_26, Lemmas.Pat.qr_geom_26⟩
  | 27, _, _ => ⟨_, _, rfl, rfl, Lemmas.Pat.qr_base_27, Lemmas.Pat.qr_used_27, Lemmas.Pat.qr_geom_27⟩
  | 28, _, _ => ⟨_, _, rfl, rfl, Lemmas.Pat.qr_base_28, Lemmas.Pat.qr_used_28, Lemmas.Pat.qr_geom_28⟩
  | 29, _, _ => ⟨_, _, rfl, rfl, Lemmas.Pat.qr_base_29, Lemmas.Pat.qr_used_29, Lemmas.Pat.qr_geom_29⟩
  | 30, _, _ => ⟨_, _, rfl, rfl, Lemmas.Pat.qr_base_30, Lemmas.Pat.qr_used_30, Lemmas.Pat.qr_geom_30⟩
  | 31, _, _ => ⟨_, _, rfl, rfl, Lemmas.Pat.qr_base_31, Lemmas.Pat.qr_used_31, Lemmas.Pat.qr_geom_31⟩
  | 32, _, _ => ⟨_, _, rfl, rfl, Lemmas.Pat.qr_base_32, Lemmas.Pat.qr_used_32, Lemmas.Pat.qr_geom_32⟩
  | 33, _, _ => ⟨_, _, rfl, rfl, Lemmas.Pat.qr_base_33, Lemmas.Pat.qr_used_33, Lemmas.Pat.qr_geom_33⟩
  | 34, _, _ => ⟨_, _, rfl, rfl, Lemmas.Pat.qr_base_34, Lemmas.Pat.qr_used_34, Lemmas.Pat.qr_geom_34⟩
  | 35, _, _ => ⟨_, _, rfl, rfl, Lemmas.Pat.qr_base_35, Lemmas.Pat.qr_used_35, Lemmas.Pat.qr_geom_35⟩
  | 36, _, _ => ⟨_, _, rfl, rfl, Lemmas.Pat.qr_base_36, Lemmas.Pat.qr_used_36, Lemmas.Pat.qr_geom_36⟩
  | 37, _, _ => ⟨_, _, rfl, rfl, Lemmas.Pat.qr_base_37, Lemmas.Pat.qr_used_37, Lemmas.Pat.qr_geom_37⟩
  | 38, _, _ => ⟨_, _, rfl, rfl, Lemmas.Pat.qr_base_38, Lemmas.Pat.qr_used_38, Lemmas.Pat.qr_geom_38⟩
  | 39, _, _ => ⟨_, _, rfl, rfl, Lemmas.Pat.qr_base_39, Lemmas.Pat.qr_used_39, Lemmas.Pat.qr_geom_39⟩
  | 40, _, _ => ⟨_, _, rfl, rfl, Lemmas.Pat.qr_base_40, Lemmas.Pat.qr_used_40, Lemmas.Pat.qr_geom_40⟩
  | 0, h, _ => absurd h (by decide)
  | n + 41, _, h => absurd h (by omega)

/-- QR: the eight mask canvases are the standard's formulas on the whole 184x177 canvas -/
theorem qr_mask_patterns (m : Nat) (h : m < 8) :
    ∃ g, Gen.QR.maskList[m]? = some g ∧
      g = { minX := 0, minY := 0, maxX := 184, maxY := 177, stride := 23, pixLen := 23 * 177, rows := QR.maskRows m 184 177 } :=
  match m, h with
  | 0, _ => ⟨_, rfl, Lemmas.Pat.qr_mask_0⟩
  | 1, _ => ⟨_, rfl, Lemmas.Pat.qr_mask_1⟩
  | 2, _ => ⟨_, rfl, Lemmas.Pat.qr_mask_2⟩
  | 3, _ => ⟨_, rfl, Lemmas.Pat.qr_mask_3⟩
  | 4, _ => ⟨_, rfl, Lemmas.Pat.qr_mask_4⟩
  | 5, _ => ⟨_, rfl, Lemmas.Pat.qr_mask_5⟩
  | 6, _ => ⟨_, rfl, Lemmas.Pat.qr_mask_6⟩
  | 7, _ => ⟨_, rfl, Lemmas.Pat.qr_mask_7⟩
  | n + 8, h => absurd h (by omega)

/-- Micro QR M1-M4: function patterns, sizes, the four mask canvases -/
theorem micro_function_patterns :
    (Gen.Micro.baseList.drop 1).map (·.rows) = (List.range 4).map (fun i => Micro.baseRows (i + 1)) ∧
    (Gen.Micro.usedList.drop 1).map (·.rows) = (List.range 4).map (fun i => Micro.usedRows (i + 1)) ∧
    Gen.Micro.maskList = (List.range 4).map (fun m =>
      ({ minX := 0, minY := 0, maxX := 24, maxY := 17, stride := 3, pixLen := 51, rows := Micro.maskRows m 24 17 } : Gen.GBmp)) :=
  ⟨Lemmas.Pat.micro_base, Lemmas.Pat.micro_used, Lemmas.Pat.micro_masks⟩

/-- rMQR R7x43-R17x139: function patterns (finder, finder sub pattern, corner finders, alignment and
timing patterns, format areas), sizes, the mask canvas.  Module (0, h-2) of the five R9 symbols is
specified as light (separator); see DESIGN.md on that cell. -/
theorem rmqr_function_patterns :
    Gen.RMQR.baseList.map (·.rows) = (List.range 32).map RMQR.baseRows ∧
    Gen.RMQR.usedList.map (·.rows) = (List.range 32).map RMQR.usedRows ∧
    Gen.RMQR.precomputedMask = { minX := 0, minY := 0, maxX := 144, maxY := 17, stride := 18, pixLen := 306, rows := RMQR.maskRows 144 17 } :=
  ⟨Lemmas.Pat.rmqr_base, Lemmas.Pat.rmqr_used, Lemmas.Pat.rmqr_mask⟩

/-- QR Table 9: totals and block structure of all 160 (version, level) rows -/
theorem qr_capacity_table (v level : Nat) (h1 : 1 ≤ v) (h40 : v ≤ 40) (hl : level < 4) :
    Lemmas.Tables.qrRowOK v level = true := Lemmas.Tables.qr_capacity v level h1 h40 hl

/-- Micro QR capacities, data bits and symbol numbers of all 8 (version, level) pairs -/
theorem micro_capacity_table : micro.all Lemmas.Tables.microRowOK = true := Lemmas.Tables.micro_capacity

/-- rMQR: necessary conditions on all 64 rows (total codewords = floor(non-function modules / 8),
blocks add up); the data/EC split itself is modelled, not verified -/
theorem rmqr_capacity_necessary :
    (List.range 32).all (fun v => QRV.Spec.Patterns.strict (Lemmas.Tables.rmqrFree v) fun free =>
      (List.range 2).all (Lemmas.Tables.rmqrRowOK v free)) = true := Lemmas.Tables.rmqr_capacity_necessary

/-- format / version information words: the standard's BCH codewords with the prescribed masks -/
theorem bch_words :
    (∀ i, i < 32 → Gen.QR.encodedFormat[i]? = some (Spec.BCH.bch15 i ^^^ 0x5412)) ∧
    (∀ v, 7 ≤ v → v ≤ 40 → Gen.QR.encodedVersion[v]? = some (Spec.BCH.bch18 v)) ∧
    (∀ i, i < 32 → Gen.Micro.encodedFormat[i]? = some (Spec.BCH.bch15 i ^^^ 0x4445)) ∧
    (∀ i, i < 64 → Gen.RMQR.encodedVersion[i]? = some (Spec.BCH.bch18 i)) :=
  ⟨C11.qr_format_is_bch, C11.qr_version_is_bch, C11.micro_format_is_bch, C11.rmqr_version_is_bch⟩

/-- Reed-Solomon codewords: message ++ parity is a codeword of the n-parity code, every n in 2..68 -/
theorem rs_codewords (n : Nat) (h2 : 2 ≤ n) (h68 : n ≤ 68) (msg : List Nat) (hm : ∀ b ∈ msg, b < 256) :
    ∃ par, Model.RS.parity n msg = .ok par ∧ par.length = n ∧ (∀ b ∈ par, b < 256) ∧
      ∀ i, i < n → Model.RS.Poly.eval (msg ++ par) (Spec.GF.pow2 i) = 0 :=
  C13.parity_is_codeword n h2 h68 msg hm

/-! non-vacuity -/
example : QR.alignPositions 30 = [6, 26, 52, 78, 104, 130] ∧ QR.alignPositions 36 = [6, 24, 50, 76, 102, 128, 154] := by decide
example : dataCodewords 40 1 = 2956 ∧ totalCodewords 40 = 3706 := by decide +kernel

end QRV.Props.C02
