import QRV.Props.C07Overfull
import QRV.Props.C07Micro
import QRV.Props.C07RMQR
import QRV.Lemmas.DecOverfullMicro2
import QRV.Lemmas.DecOverfullRMQR2
/-
C07 — finding D16 stated exactly for the Micro QR and rMQR decoders (the QR case is `Props/C07Overfull.lean`): whatever
the decoder returns exceeds the bits of the data codewords by less than the last group it read.
-/
namespace QRV.Props.C07
open QRV QRV.Model QRV.Model.Sym QRV.Model.Bitmap QRV.Spec.Valid

/-- width of the final character group of a non-empty segment of kind k with n characters -/
def finalGroupBits (k n : Nat) : Nat :=
  match k with
  | 0 => if n % 3 = 1 then 4 else if n % 3 = 2 then 7 else 10
  | 1 => if n % 2 = 0 then 11 else 6
  | 2 => 8
  | _ => 13

/-- Micro QR: the last group read for a segment (its count field if it is empty) -/
def microLastGroupBits (s : Segment) (v : Nat) : Nat :=
  match Spec.Valid.Micro.kindOf s.mode with
  | some k =>
    let n := count k s.data
    if n = 0 then (Spec.Valid.Micro.countBits k v).getD 0 else finalGroupBits k n
  | none => 0

/-- rMQR: the last group read for a segment (its count field if it is empty) -/
def rmqrLastGroupBits (s : Segment) (c : Gen.GCap) : Nat :=
  match Spec.Valid.RMQR.kindOf s.mode with
  | some k =>
    let n := count k s.data
    if n = 0 then Spec.Valid.RMQR.countBits k c else finalGroupBits k n
  | none => 0

theorem finalGroupBits_eq (k n : Nat) : finalGroupBits k n = Lemmas.DecOverfull.lastG k n := by
  match k with
  | 0 => rfl
  | 1 => rfl
  | 2 => rfl
  | _ + 3 => rfl

theorem microLastGroupBits_eq (s : Segment) (v : Nat) :
    microLastGroupBits s v = Lemmas.DecOverfull.lastGrpM v s := by
  unfold microLastGroupBits Lemmas.DecOverfull.lastGrpM
  cases Spec.Valid.Micro.kindOf s.mode with
  | none => rfl
  | some k => simp only [finalGroupBits_eq]

theorem rmqrLastGroupBits_eq (s : Segment) (c : Gen.GCap) :
    rmqrLastGroupBits s c = Lemmas.DecOverfull.lastGrpR c s := by
  unfold rmqrLastGroupBits Lemmas.DecOverfull.lastGrpR
  cases Spec.Valid.RMQR.kindOf s.mode with
  | none => rfl
  | some k => simp only [finalGroupBits_eq]

/-- Micro QR: the description the decoder returns exceeds the data codewords of the symbol (the data bits rounded up to whole
codewords: the final codeword of M1 / M3 has four bits, the decoder's buffer holds it as a byte) by less than its last read group -/
theorem micro_decoded_overfull_within_last_group (img : Image) (hw : C06.WellFormed img) (q : QRCode)
    (h : Model.Micro.decodeBitmap img = .ok q) (s : Segment) (hs : q.segments.getLast? = some s) :
    (q.segments.map fun t => Spec.Valid.Micro.segBits t q.version.toNat).sum <
      8 * (((Spec.Valid.Micro.dataBits q.version.toNat q.level.toNat).getD 0 + 7) / 8) + microLastGroupBits s q.version.toNat := by
  rw [microLastGroupBits_eq]
  exact (Lemmas.DecOverfull.micro_decodeBitmap_over_sat img hw.wf).of_ok h s hs

/-- rMQR: the description the decoder returns exceeds the data codewords of the symbol by less than its last read group -/
theorem rmqr_decoded_overfull_within_last_group (img : Image) (hw : C06.WellFormed img) (q : QRCode)
    (h : Model.RMQR.decodeBitmap img = .ok q) (s : Segment) (hs : q.segments.getLast? = some s)
    (c : Gen.GCap) (hc : Spec.Valid.RMQR.row q.version.toNat q.level.toNat = some c) :
    (q.segments.map fun t => Spec.Valid.RMQR.segBits t c).sum < 8 * c.data + rmqrLastGroupBits s c := by
  rw [rmqrLastGroupBits_eq]
  obtain ⟨v, l, _, _, ev, el, hb⟩ := (Lemmas.DecOverfull.rmqr_decodeBitmap_over_sat img hw.wf).of_ok h
  have tv : q.version.toNat = v := by omega
  have tl : q.level.toNat = l := by omega
  rw [tv, tl] at hc
  exact hb c hc s hs

/-- Micro QR: the same bound for the segment parser (`decodeVersion1` … `decodeVersion4`) over ANY byte buffer -/
theorem micro_segmentLoop_overfull_within_last_group (version : Int) (h1 : 1 ≤ version) (h4 : version ≤ 4)
    (bytes : Array Nat) (fuel : Nat) (segs : List Segment)
    (h : Model.Micro.segmentLoop version fuel { buf := bytes } #[] = .ok segs) (s : Segment)
    (hs : segs.getLast? = some s) :
    (segs.map fun t => Spec.Valid.Micro.segBits t version.toNat).sum <
      8 * bytes.size + microLastGroupBits s version.toNat := by
  rw [microLastGroupBits_eq]
  exact Lemmas.DecOverfull.micro_segmentLoop_over version h1 h4 fuel { buf := bytes } #[]
    ⟨by show (0 : Nat) < 8; decide, by unfold Lemmas.Dec.cur; simp, Or.inl (by simp [Lemmas.DecOverfull.sumF])⟩
    (by simp) segs h s hs

/-- rMQR: the same bound for the segment loop over ANY byte buffer, for a capacity row whose count indicators are
1 to 16 bits wide (every row of the table is) -/
theorem rmqr_segmentLoop_overfull_within_last_group (c : Gen.GCap) (hbl : ∀ n ∈ c.bitLength, n ≤ 16)
    (hpos : ∀ k, k < 4 → 0 < Spec.Valid.RMQR.countBits k c)
    (bytes : Array Nat) (fuel : Nat) (segs : List Segment)
    (h : Model.RMQR.segmentLoop c.bitLength fuel { buf := bytes } #[] = .ok segs) (s : Segment)
    (hs : segs.getLast? = some s) :
    (segs.map fun t => Spec.Valid.RMQR.segBits t c).sum < 8 * bytes.size + rmqrLastGroupBits s c := by
  rw [rmqrLastGroupBits_eq]
  exact Lemmas.DecOverfull.segmentLoopR_over c hbl hpos fuel { buf := bytes } #[]
    ⟨by show (0 : Nat) < 8; decide, by unfold Lemmas.Dec.cur; simp, Or.inl (by simp [Lemmas.DecOverfull.sumF])⟩
    (by simp) segs h s hs

/-- non-vacuity, Micro QR: the bound is attained strictly above the capacity.  One codeword `10 0001 11` (M3): byte mode,
count 1, and a byte of which only two bits are inside the data - the decoder zero-extends it to 0xC0 and returns a
description of 14 bits for 8 bits of data; 14 < 8 + 8.  One codeword `11 000 01 0` (M3): an empty kanji segment, then
alphanumeric mode and a count indicator of which one bit is inside the data, zero-extended to 0 - two empty segments,
11 bits for 8 bits of data; 11 < 8 + 4, the last group read being the count indicator. -/
example :
    Model.Micro.segmentLoop 3 16 { buf := #[0x87] } #[] = .ok [{ mode := 2, data := [0xC0] }] ∧
    ([({ mode := 2, data := [0xC0] } : Segment)].map fun t => Spec.Valid.Micro.segBits t 3).sum = 14 ∧
    microLastGroupBits { mode := 2, data := [0xC0] } 3 = 8 ∧
    Model.Micro.segmentLoop 3 16 { buf := #[0xC2] } #[] = .ok [{ mode := 3, data := [] }, { mode := 1, data := [] }] ∧
    ([({ mode := 3, data := [] } : Segment), { mode := 1, data := [] }].map fun t => Spec.Valid.Micro.segBits t 3).sum = 11 ∧
    microLastGroupBits { mode := 1, data := [] } 3 = 4 := by
  refine ⟨by decide +kernel, by decide +kernel, by decide +kernel, by decide +kernel, by decide +kernel,
    by decide +kernel⟩

/-- non-vacuity, rMQR: two codewords `100 00 011 | 001 11111` with the row of R7x43-M (count indicators 4, 3, 3, 2 bits):
an empty kanji segment, then byte mode, count 1, and a byte of which five bits are inside the data - zero-extended to
0xF8; 19 bits for 16 bits of data; 19 < 16 + 8. -/
example : ∃ c, Spec.Valid.RMQR.row 0 0 = some c ∧
    Model.RMQR.segmentLoop c.bitLength 24 { buf := #[0x83, 0x3F] } #[] =
      .ok [{ mode := 4, data := [] }, { mode := 3, data := [0xF8] }] ∧
    ([({ mode := 4, data := [] } : Segment), { mode := 3, data := [0xF8] }].map fun t =>
      Spec.Valid.RMQR.segBits t c).sum = 19 ∧
    rmqrLastGroupBits { mode := 3, data := [0xF8] } c = 8 := by
  refine ⟨(Spec.Valid.RMQR.row 0 0).getD default, by decide +kernel, by decide +kernel, by decide +kernel,
    by decide +kernel⟩

end QRV.Props.C07
