import QRV.Model.QR
import QRV.Model.Micro
import QRV.Model.RMQR
/-
C04 — New preserves the payload and produces valid segments.

Stated about `QRV.Model.New` (the mode-selection dynamic programmes `newQR` / `newFromKanji`, one
model for the three textual copies in /repo, parameterised by header costs and mode numbers) and
the three `new` wrappers.  Payload bytes are naturals below 256.
-/
namespace QRV.Props.C04
open QRV QRV.Model QRV.Model.Sym QRV.Model.New QRV.Model.Codec

/-- the class test of DP mode index 1 (numeric), 2 (alphanumeric), 3 (bytes) -/
def classOK (idx ch : Nat) : Prop :=
  (idx = 1 → isNumeric ch = true) ∧ (idx = 2 → isAlphanumeric ch = true) ∧ (idx = 1 ∨ idx = 2 ∨ idx = 3)

/-- `mergeSegs` only groups: concatenation of the data is the concatenation of the pieces -/
theorem mergeSegs_concat (ml : List Nat) (pieces : List (Nat × List Nat)) :
    (mergeSegs ml pieces).flatMap (·.data) = pieces.flatMap (·.2) := by
  sorry

/-- `mergeSegs` of non-empty pieces has no empty segment -/
theorem mergeSegs_nonempty (ml : List Nat) (pieces : List (Nat × List Nat)) (h : ∀ p ∈ pieces, p.2 ≠ []) :
    ∀ s ∈ mergeSegs ml pieces, s.data ≠ [] := by
  sorry

/-- every segment of `mergeSegs` carries the mode of the pieces it was built from, and all its bytes
come from pieces of that mode -/
theorem mergeSegs_modes (ml : List Nat) (pieces : List (Nat × List Nat)) (P : Nat → Nat → Prop)
    (h : ∀ p ∈ pieces, ∀ b ∈ p.2, P (ml[p.1]?.getD 0) b) :
    ∀ s ∈ mergeSegs ml pieces, ∀ b ∈ s.data, P s.mode b := by
  sorry

/-- non-kanji DP: the segments concatenate to the payload, byte for byte -/
theorem newQR_concat (hN hA hB : Nat) (ml : List Nat) (data : Array Nat) (hne : data.size ≠ 0) :
    (newQRSegs hN hA hB ml data).flatMap (·.data) = data.toList := by
  sorry

/-- non-kanji DP: no segment is empty -/
theorem newQR_nonempty (hN hA hB : Nat) (ml : List Nat) (data : Array Nat) (hne : data.size ≠ 0) :
    ∀ s ∈ newQRSegs hN hA hB ml data, s.data ≠ [] := by
  sorry

/-- non-kanji DP with the QR mode numbers: every byte of a numeric segment is a digit, every byte
of an alphanumeric segment is in the 45-character set, and only the three modes occur -/
theorem newQR_valid_QR (data : Array Nat) (hne : data.size ≠ 0) :
    ∀ s ∈ newQRSegs ((4 + 14) * 6) ((4 + 13) * 6) ((4 + 16) * 6) [0, 1, 2, 4] data,
      (s.mode = 1 ∨ s.mode = 2 ∨ s.mode = 4) ∧
      (s.mode = 1 → ∀ b ∈ s.data, isNumeric b = true) ∧
      (s.mode = 2 → ∀ b ∈ s.data, isAlphanumeric b = true) := by
  sorry

/-- kanji DP: when it returns, the segments concatenate to the payload and none is empty
(the back-tracking loop of the Go code has no bound; in the model it has fuel and running out is a
panic outcome, so this also needs that outcome not to occur) -/
theorem newKanji_concat (ml : List Nat) (data : Array Nat) (hne : data.size ≠ 0) (segs : List Segment)
    (h : newKanjiSegs ml data = .ok segs) :
    segs.flatMap (·.data) = data.toList ∧ ∀ s ∈ segs, s.data ≠ [] := by
  sorry

/-- kanji DP never panics: the back-tracking loop terminates within its fuel and never indexes out
of range -/
theorem newKanji_no_panic (ml : List Nat) (data : Array Nat) (hne : data.size ≠ 0) :
    (newKanjiSegs ml data).isPanic = false := by
  sorry

/-- QR `New` without kanji: what it returns concatenates to the payload at the requested level -/
theorem qr_new_preserves_payload (level : Int) (data : List Nat) (q : QRCode)
    (h : Model.QR.new level false data = .ok q) :
    q.segments.flatMap (·.data) = data ∧ q.level = level ∧ ∀ s ∈ q.segments, s.data ≠ [] := by
  sorry

/-! non-vacuity -/
example : newQRSegs ((4 + 14) * 6) ((4 + 13) * 6) ((4 + 16) * 6) [0, 1, 2, 4] #[0x31, 0x32, 0x41, 0x61]
    = [{ mode := 4, data := [0x31, 0x32, 0x41, 0x61] }] := by decide +kernel

end QRV.Props.C04
