import QRV.Model.QR
import QRV.Model.Micro
import QRV.Model.RMQR
import QRV.Lemmas.NewDP
/-
C04 — New preserves the payload and produces valid segments.

Stated about `QRV.Model.New` (the mode-selection dynamic programmes `newQR` / `newFromKanji`, one
model for the three textual copies in /repo, parameterised by header costs and mode numbers) and
the three `new` wrappers.  Payload bytes are naturals below 256.
-/
namespace QRV.Props.C04
open QRV QRV.Model QRV.Model.Sym QRV.Model.New QRV.Model.Codec

/-- the class test of DP mode index 1 (numeric), 2 (alphanumeric), 3 (bytes) -/
def classOK (idx ch : Nat) : Prop :=
  (idx = 1 → isNumeric ch = true) ∧ (idx = 2 → isAlphanumeric ch = true) ∧ (idx = 1 ∨ idx = 2 ∨ idx = 3)

/-- `mergeSegs` only groups: concatenation of the data is the concatenation of the pieces -/
theorem mergeSegs_concat (ml : List Nat) (pieces : List (Nat × List Nat)) :
    (mergeSegs ml pieces).flatMap (·.data) = pieces.flatMap (·.2) := by
  exact Lemmas.NewDP.mergeSegs_concat ml pieces

/-- `mergeSegs` of non-empty pieces has no empty segment -/
theorem mergeSegs_nonempty (ml : List Nat) (pieces : List (Nat × List Nat)) (h : ∀ p ∈ pieces, p.2 ≠ []) :
    ∀ s ∈ mergeSegs ml pieces, s.data ≠ [] := by
  exact Lemmas.NewDP.mergeSegs_nonempty ml pieces h

/-- every segment of `mergeSegs` carries the mode of the pieces it was built from, and all its bytes
come from pieces of that mode -/
theorem mergeSegs_modes (ml : List Nat) (pieces : List (Nat × List Nat)) (P : Nat → Nat → Prop)
    (h : ∀ p ∈ pieces, ∀ b ∈ p.2, P (ml[p.1]?.getD 0) b) :
    ∀ s ∈ mergeSegs ml pieces, ∀ b ∈ s.data, P s.mode b := by
  exact Lemmas.NewDP.mergeSegs_modes ml pieces P h

/-- non-kanji DP: the segments concatenate to the payload, byte for byte -/
theorem newQR_concat (hN hA hB : Nat) (ml : List Nat) (data : Array Nat) (hne : data.size ≠ 0) :
    (newQRSegs hN hA hB ml data).flatMap (·.data) = data.toList := by
  exact Lemmas.NewDP.newQR_concat' hN hA hB ml data

/-- non-kanji DP: no segment is empty -/
theorem newQR_nonempty (hN hA hB : Nat) (ml : List Nat) (data : Array Nat) (hne : data.size ≠ 0) :
    ∀ s ∈ newQRSegs hN hA hB ml data, s.data ≠ [] := by
  exact Lemmas.NewDP.newQR_nonempty' hN hA hB ml data

/-- non-kanji DP with the QR mode numbers: every byte of a numeric segment is a digit, every byte
of an alphanumeric segment is in the 45-character set, and only the three modes occur.

CORRECTED STATEMENT: the hypothesis `hsz` was added.  Without a bound on the payload length the
statement is false: costs are capped at `inf = 2^63 - 1 - 2^18` (`trans` starts from
`minCost := inf, lastMode := 0` and only takes strictly smaller costs), every character costs at
least 20, so for any payload of `N ≥ inf / 20` bytes (about 4.6e17 bytes; not evaluable) every
entry of the last row is `{cost := inf, lastMode := 0}`, the back-tracking reads `lastMode = 0`
and the result has a segment of mode `modeList[0] = 0`.  What the proof needs is that the all-bytes
path stays below `inf`: `(4 + 16) * 6 + 48 * data.size < inf`, which `data.size < 2 ^ 56` gives.
The unbounded statement is refuted formally (payload of `2 ^ 60` bytes, never evaluated) in
`Lemmas.NewDP.newQR_valid_QR_unbounded_false`. -/
theorem newQR_valid_QR (data : Array Nat) (hne : data.size ≠ 0) (hsz : data.size < 2 ^ 56) :
    ∀ s ∈ newQRSegs ((4 + 14) * 6) ((4 + 13) * 6) ((4 + 16) * 6) [0, 1, 2, 4] data,
      (s.mode = 1 ∨ s.mode = 2 ∨ s.mode = 4) ∧
      (s.mode = 1 → ∀ b ∈ s.data, isNumeric b = true) ∧
      (s.mode = 2 → ∀ b ∈ s.data, isAlphanumeric b = true) := by
  exact Lemmas.NewDP.newQR_valid_QR' data hne hsz

/-- kanji DP: when it returns, the segments concatenate to the payload and none is empty
(the back-tracking loop of the Go code has no bound; in the model it has fuel and running out is a
panic outcome, so this also needs that outcome not to occur).

CORRECTED STATEMENT: the hypothesis `hsz` was added.  Without a bound on the payload length the
statement is false: for a payload of `N ≥ inf / 48` bytes that pass no class test, such as 0x80 or
lower-case letters (about 1.9e17 bytes; not evaluable), the cost of the only finite path, all
bytes, reaches `inf`; in the last row the entries of numeric, alphanumeric and kanji are
`{cost := inf, lastMode := 0, data := [] }`, the
strict comparison keeps `bestMode = 1`, whose entry has `lastMode = 0`, so the back-tracking stops
at once and the result is the single segment `{ mode := modeList[1], data := [] }`: it is empty and
does not concatenate to the payload.  What the proof needs is that the all-bytes path stays below
`inf`: `120 + 48 * data.size < inf`, which `data.size < 2 ^ 56` gives.
The unbounded statement is refuted formally (`2 ^ 60` bytes 0x80, never evaluated) in
`Lemmas.NewDP.newKanji_concat_unbounded_false`. -/
theorem newKanji_concat (ml : List Nat) (data : Array Nat) (hne : data.size ≠ 0) (hsz : data.size < 2 ^ 56)
    (segs : List Segment) (h : newKanjiSegs ml data = .ok segs) :
    segs.flatMap (·.data) = data.toList ∧ ∀ s ∈ segs, s.data ≠ [] := by
  exact Lemmas.NewDP.newKanji_concat' ml data hne hsz segs h

/-- kanji DP never panics: the back-tracking loop terminates within its fuel and never indexes out
of range -/
theorem newKanji_no_panic (ml : List Nat) (data : Array Nat) (hne : data.size ≠ 0) :
    (newKanjiSegs ml data).isPanic = false := by
  exact Lemmas.NewDP.newKanji_no_panic' ml data

/-- QR `New` without kanji: what it returns concatenates to the payload at the requested level -/
theorem qr_new_preserves_payload (level : Int) (data : List Nat) (q : QRCode)
    (h : Model.QR.new level false data = .ok q) :
    q.segments.flatMap (·.data) = data ∧ q.level = level ∧ ∀ s ∈ q.segments, s.data ≠ [] := by
  exact Lemmas.NewDP.qr_new_preserves_payload level data q h

/-! non-vacuity -/
example : newQRSegs ((4 + 14) * 6) ((4 + 13) * 6) ((4 + 16) * 6) [0, 1, 2, 4] #[0x31, 0x32, 0x41, 0x61]
    = [{ mode := 4, data := [0x31, 0x32, 0x41, 0x61] }] := by decide +kernel

end QRV.Props.C04
