import QRV.Props.C03
import QRV.Props.C01
import QRV.Lemmas.C03QRLift
/-
C03 — QR, whole symbols: a bitmap that has the clean symbol's function modules and whose data
modules carry - along the standard's module walk, under the symbol's mask pattern, in the standard's
block interleaving - blocks that each differ from the conformant block in at most the rated number
of codewords, decodes to the original description.  With zero damage this is "a conformant symbol
produced by any other encoder is read correctly" (the remainder bits are unconstrained).
-/
namespace QRV.Props.C03
open QRV QRV.Model QRV.Model.Sym QRV.Model.Bitmap QRV.Spec.Valid QRV.Spec.Bits QRV.Lemmas.RT

/-- the rated number of correctable codewords of each block of a capacity row, in block order -/
def ratedOf (blocks : List Gen.GBlock) : List Nat :=
  blocks.flatMap fun bc => List.replicate bc.num bc.maxError

set_option linter.unusedVariables false in
/-- QR versions 1-40.
* `img` is the library's clean symbol for the valid description `q`, emitted with mask `m`;
* `blks` are the conformant blocks: the data stream split per the capacity row, each with its parity;
* `img'` is any regular bitmap of the same size with the same function modules (so the format and
  version information stay readable) whose k-th data module along the walk `cs` holds bit k of the
  interleaved sequence of some blocks `blks'` XOR the mask condition;
* every `blks'[j]` has the shape of `blks[j]` and differs from it in at most `rated[j]` codewords.
Then `img'` decodes to `q` (with the mask that was used). -/
theorem qr_corrects_rated_damage (q : QRCode) (hv : QR.Valid q) (img : Image) (m : Nat)
    (henc : Model.QR.encodeToBitmap q = .ok img) (hm : m < 8)
    (hmask : Model.QR.decodeBitmap img = .ok { q with mask := (m : Int) })
    (cap : Gen.GCap) (hcap : (Gen.QR.capacityTable[q.version.toNat]?.getD [])[q.level.toNat]? = some cap)
    (buf : Bits.Buffer) (hbuf : Model.QR.encodeSegments q {} = .ok buf)
    (blks : List (List Nat × List Nat)) (hblks : splitBlocks cap.blocks buf.buf.toList = .ok blks)
    (cs : List (Int × Int))
    (hcs : walk (usedFn q.version.toNat) (16 + 4 * q.version) (fuelOf (16 + 4 * q.version)) (start (16 + 4 * q.version)) = some cs)
    (img' : Image) (hreg : C18.Regular img' (17 + 4 * q.version.toNat) (17 + 4 * q.version.toNat))
    (hfun : ∀ x y : Nat, x < 17 + 4 * q.version.toNat → y < 17 + 4 * q.version.toNat →
      usedFn q.version.toNat (x : Int) (y : Int) = true → C18.px img' x y = C18.px img x y)
    (blks' : List (List Nat × List Nat))
    (hshape : blks'.map (fun b => (b.1.length, b.2.length)) = sizesOf cap.blocks)
    (hbytes : ∀ b ∈ blks', (∀ x ∈ b.1, x < 256) ∧ ∀ x ∈ b.2, x < 256)
    (hcarry : ∀ k (hk : k < 8 * cap.total) (hk' : k < cs.length),
      C18.px img' (cs[k]).1.toNat (cs[k]).2.toNat =
        ((unpack (ilvList blks'))[k]?.getD false ^^ Spec.Patterns.QR.maskCond m (cs[k]).2.toNat (cs[k]).1.toNat))
    (hdam : ∀ j (hj : j < blks.length) (hj' : j < blks'.length),
      C14.dist (blks[j].1 ++ blks[j].2) (blks'[j].1 ++ blks'[j].2) ≤ (ratedOf cap.blocks)[j]?.getD 0) :
    Model.QR.decodeBitmap img' = .ok { q with mask := (m : Int) } := by
  have _ := hm  -- implied by `hmask`
  obtain ⟨version, level, mask, segments⟩ := q
  obtain ⟨v, rfl⟩ := Int.eq_ofNat_of_zero_le (show 0 ≤ version by have := hv.version.1; simp only at this; omega)
  obtain ⟨l, rfl⟩ := Int.eq_ofNat_of_zero_le (show 0 ≤ level from hv.level.1)
  simp only [Int.toNat_natCast] at hcap hcs hreg hfun
  exact corrects_rated_damage_nat v l mask segments hv img m henc hmask cap hcap buf hbuf blks hblks cs hcs
    img' hreg hfun blks' hshape hbytes hcarry hdam

/-! ## non-vacuity -/

/-- for every valid description the hypotheses of `qr_corrects_rated_damage` are jointly satisfiable
with zero damage: `img' = img`, `blks' = blks` (so the clean symbol itself carries, under its mask,
the interleaved conformant blocks along the walk) -/
theorem hypotheses_satisfiable (q : QRCode) (hv : QR.Valid q) :
    ∃ (img : Image) (m : Nat) (cap : Gen.GCap) (buf : Bits.Buffer) (blks : List (List Nat × List Nat)) (cs : List (Int × Int)), Model.QR.encodeToBitmap q = .ok img ∧ m < 8 ∧
      Model.QR.decodeBitmap img = .ok { q with mask := (m : Int) } ∧
      (Gen.QR.capacityTable[q.version.toNat]?.getD [])[q.level.toNat]? = some cap ∧
      Model.QR.encodeSegments q {} = .ok buf ∧ splitBlocks cap.blocks buf.buf.toList = .ok blks ∧
      walk (usedFn q.version.toNat) (16 + 4 * q.version) (fuelOf (16 + 4 * q.version)) (start (16 + 4 * q.version)) = some cs ∧
      C18.Regular img (17 + 4 * q.version.toNat) (17 + 4 * q.version.toNat) ∧
      blks.map (fun b => (b.1.length, b.2.length)) = sizesOf cap.blocks ∧
      (∀ b ∈ blks, (∀ x ∈ b.1, x < 256) ∧ ∀ x ∈ b.2, x < 256) ∧
      (∀ k (_ : k < 8 * cap.total) (hk' : k < cs.length),
        C18.px img (cs[k]).1.toNat (cs[k]).2.toNat =
          ((unpack (ilvList blks))[k]?.getD false ^^ Spec.Patterns.QR.maskCond m (cs[k]).2.toNat (cs[k]).1.toNat)) ∧
      (∀ j (hj : j < blks.length), C14.dist (blks[j].1 ++ blks[j].2) (blks[j].1 ++ blks[j].2) = 0) := by
  obtain ⟨version, level, mask, segments⟩ := q
  obtain ⟨v, rfl⟩ := Int.eq_ofNat_of_zero_le (show 0 ≤ version by have := hv.version.1; simp only at this; omega)
  obtain ⟨l, rfl⟩ := Int.eq_ofNat_of_zero_le (show 0 ≤ level from hv.level.1)
  obtain ⟨img, m, c, henc, hm, hreg, -, -, hdec, cap, buf, blks, cs, hcap, hbuf, hblks, hcs, hshape, hbytes, hcarry⟩ :=
    roundtrip_exposed v l mask segments hv
  simp only [Int.toNat_natCast]
  exact ⟨img, m, cap, buf, blks, cs, henc, hm, hdec, hcap, hbuf, hblks, hcs, hreg, hshape, hbytes, hcarry,
    fun j _ => dist_self _⟩

/-- the theorem applied to that instance (its conclusion then restates `hmask`; the point is that
all hypotheses hold together) -/
example (q : QRCode) (hv : QR.Valid q) :
    ∃ (img : Image) (m : Nat), Model.QR.encodeToBitmap q = .ok img ∧ Model.QR.decodeBitmap img = .ok { q with mask := (m : Int) } := by
  obtain ⟨img, m, cap, buf, blks, cs, henc, hm, hmask, hcap, hbuf, hblks, hcs, hreg, hshape, hbytes, hcarry, hzero⟩ :=
    hypotheses_satisfiable q hv
  exact ⟨img, m, henc, qr_corrects_rated_damage q hv img m henc hm hmask cap hcap buf hbuf blks hblks cs hcs
    img hreg (fun _ _ _ _ _ => rfl) blks hshape hbytes hcarry
    (fun j hj _ => by rw [hzero j hj]; exact Nat.zero_le _)⟩

end QRV.Props.C03
