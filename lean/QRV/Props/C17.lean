import QRV.Props.C16
import QRV.Lemmas.KanjiFinite
import QRV.Lemmas.Codec
/-
C17 — data-mode codecs: exact inverses, standard bit layout, Shift JIS kanji table.

Codecs are `QRV.Model.Codec` (model of bitstream/encode.go, decode.go) writing to / reading from the
byte-level buffer of C16; their effect is stated on the abstract bit list `C16.abs` (writes) and on
the byte image `unpack buf` at the read cursor (reads).  The standard's layout is `QRV.Spec.Codec`.
The kanji tables are compared with a reference generated from CPython's cp932 codec.
-/
namespace QRV.Props.C17
open QRV QRV.Model.Bits QRV.Model.Codec QRV.Spec.Bits QRV.Spec.Codec QRV.Props.C16 QRV.Lemmas.Kanji
open QRV.Lemmas.Codec

/-- read cursor in bits -/
def cursor (b : Buffer) : Nat := 8 * b.offset + b.read

/-- the unread part of the byte image -/
def unread (b : Buffer) : List Bool := (unpack b.buf.toList).drop (cursor b)

/-! ### character classes and tables (complete finite ranges) -/

theorem numeric_class (ch : Nat) (h : ch < 256) : isNumeric ch = true ↔ (48 ≤ ch ∧ ch ≤ 57) := by
  have _ := h  -- holds for every ch
  exact isNumeric_iff ch

theorem alnum_class (ch : Nat) (h : ch < 256) : alnumIdx ch = alnumValue ch := by
  have _ := h  -- holds for every ch
  exact alnumIdx_eq_alnumValue ch

/-- the kanji decode table is Shift JIS (Windows-31J) on all 8,192 codes: an assigned code decodes
to the reference character, and every other code (unassigned cell, or beyond the table) is rejected
by `decodeKanji` -/
theorem kanji_decode_is_sjis (code : Nat) (h : code < 8192) :
    (refAt code ≠ 0 → decodeKanjiCode code = some (refAt code)) ∧
    (refAt code = 0 → decodeKanjiCode code = none ∨ decodeKanjiCode code = some 0) := by
  rcases decode_cases code h with h1 | h2
  · exact ⟨fun _ => h1.2, fun h0 => Or.inr (by rw [h1.2, h0])⟩
  · exact ⟨fun hne => absurd h2.2 hne, fun _ => Or.inl h2.1⟩

/-- the compaction formula: an assigned code is ((hi - 0x81 or 0xC1) * 0xC0 + lo - 0x40) of a
double byte with lead byte in 0x81-0x9F / 0xE0-0xEB -/
theorem kanji_code_is_compaction (code : Nat) (h : code < 8192) (ha : refAt code ≠ 0) :
    let (hi, lo) := sjisOf code
    ((0x81 ≤ hi ∧ hi ≤ 0x9F) ∨ (0xE0 ≤ hi ∧ hi ≤ 0xEB)) ∧ compact hi lo = code := by
  have hA := assigned_area code h
  simp only [areaOK, Bool.or_eq_true, beq_iff_eq] at hA
  rcases hA with h0 | h1
  · exact absurd h0 ha
  · generalize sjisOf code = p at h1 ⊢
    obtain ⟨hi, lo⟩ := p
    simp only [Bool.and_eq_true, Bool.or_eq_true, decide_eq_true_eq, beq_iff_eq] at h1 ⊢
    exact ⟨h1.1.1.1.1, h1.2⟩

/-- the encoder returns the smallest code of a character, and only for characters that have one -/
theorem kanji_encode_is_least_inverse (r : Nat) :
    (∀ c, encodeKanjiRune r = some c → c < 8192 ∧ refAt c = r ∧ r ≠ 0 ∧ ∀ c' < 8192, refAt c' = r → c ≤ c') ∧
    (encodeKanjiRune r = none → ∀ c < 8192, refAt c ≠ r ∨ r = 0) := by
  refine ⟨fun c hc => ?_, fun hn c hc => ?_⟩
  · obtain ⟨h1, h2, h3⟩ := encode_some r c hc
    refine ⟨h1, h2, h3, fun c' hc' hr => ?_⟩
    obtain ⟨c₀, e₀, hle⟩ := encode_least c' hc' (by rw [hr]; exact h3)
    rw [hr, hc] at e₀
    cases e₀
    exact hle
  · by_cases hr : refAt c = r
    · by_cases h0 : r = 0
      · exact Or.inr h0
      · obtain ⟨c₀, e₀, _⟩ := encode_least c hc (by rw [hr]; exact h0)
        rw [hr, hn] at e₀
        cases e₀
    · exact Or.inl hr

/-! ### encoders: standard layout, rejection exactly of foreign characters -/

theorem encodeNumeric_layout (b : Buffer) (h : Inv b) (data : List Nat) (hd : ∀ ch ∈ data, isNumeric ch = true) :
    ∃ b', encodeNumeric b data = .ok b' ∧ Inv b' ∧ abs b' = abs b ++ numericBits data ∧
      b'.offset = b.offset ∧ b'.read = b.read := by
  unfold encodeNumeric
  rw [if_neg (by simpa using hd)]
  exact encodeNumeric_go data b h

theorem encodeNumeric_rejects (b : Buffer) (data : List Nat) (hd : ∃ ch ∈ data, isNumeric ch = false) :
    (encodeNumeric b data).isErr = true := by
  unfold encodeNumeric
  rw [if_pos (by simpa using hd)]
  rfl

theorem encodeAlphanumeric_layout (b : Buffer) (h : Inv b) (data : List Nat) (hd : ∀ ch ∈ data, isAlphanumeric ch = true) :
    ∃ b', encodeAlphanumeric b data = .ok b' ∧ Inv b' ∧ abs b' = abs b ++ alnumBits data ∧
      b'.offset = b.offset ∧ b'.read = b.read := by
  unfold encodeAlphanumeric
  rw [if_neg (by simpa using hd)]
  exact encodeAlphanumeric_go data b h

theorem encodeAlphanumeric_rejects (b : Buffer) (data : List Nat) (hd : ∃ ch ∈ data, isAlphanumeric ch = false) :
    (encodeAlphanumeric b data).isErr = true := by
  unfold encodeAlphanumeric
  rw [if_pos (by simpa using hd)]
  rfl

theorem encodeBytes_layout (b : Buffer) (h : Inv b) (data : List Nat) :
    ∃ b', encodeBytes b data = .ok b' ∧ Inv b' ∧ abs b' = abs b ++ byteBits data ∧
      b'.offset = b.offset ∧ b'.read = b.read := by
  exact encodeBytes_go data b h

/-- kanji: one 13-bit code per character, in order; rejected exactly when some character has no code -/
theorem encodeKanji_layout (b : Buffer) (h : Inv b) (data : List Nat)
    (hd : ∀ r ∈ Model.Utf8.runes data, isKanji r = true) :
    ∃ b', encodeKanji b data = .ok b' ∧ Inv b' ∧
      abs b' = abs b ++ kanjiBits ((Model.Utf8.runes data).map fun r => (encodeKanjiRune r).getD 0) ∧
      b'.offset = b.offset ∧ b'.read = b.read := by
  exact encodeKanji_go _ b h hd

theorem encodeKanji_rejects (b : Buffer) (h : Inv b) (data : List Nat)
    (hd : ∃ r ∈ Model.Utf8.runes data, isKanji r = false) :
    (encodeKanji b data).isErr = true := by
  exact encodeKanji_go_rejects _ b h hd

/-! ### decoders: inverse of the encoders, rejection of out-of-range groups -/

/-- decoding what the numeric encoder produced, with the same character count, returns the string
(whatever follows it in the stream) -/
theorem decodeNumeric_inverse (b : Buffer) (h : Inv b) (hr : b.read < 8) (data : List Nat)
    (hd : ∀ ch ∈ data, isNumeric ch = true) (rest : List Bool) (hu : unread b = numericBits data ++ rest) :
    ∃ b', decodeNumeric b data.length = .ok (b', data) ∧ b'.buf = b.buf ∧ b'.wrote = b.wrote ∧ b'.read < 8 ∧
      cursor b' = cursor b + (numericBits data).length := by
  simpa [decodeNumeric, cursor, cur] using decodeNumeric_go data b #[] rest h hr hd hu

theorem decodeAlphanumeric_inverse (b : Buffer) (h : Inv b) (hr : b.read < 8) (data : List Nat)
    (hd : ∀ ch ∈ data, isAlphanumeric ch = true) (rest : List Bool) (hu : unread b = alnumBits data ++ rest) :
    ∃ b', decodeAlphanumeric b data.length = .ok (b', data) ∧ b'.buf = b.buf ∧ b'.wrote = b.wrote ∧ b'.read < 8 ∧
      cursor b' = cursor b + (alnumBits data).length := by
  simpa [decodeAlphanumeric, cursor, cur] using decodeAlphanumeric_go data b #[] rest h hr hd hu

theorem decodeBytes_inverse (b : Buffer) (h : Inv b) (hr : b.read < 8) (data : List Nat)
    (hd : ∀ ch ∈ data, ch < 256) (rest : List Bool) (hu : unread b = byteBits data ++ rest) :
    ∃ b', decodeBytes b data.length = .ok (b', data) ∧ b'.buf = b.buf ∧ b'.wrote = b.wrote ∧ b'.read < 8 ∧
      cursor b' = cursor b + (byteBits data).length := by
  simpa [decodeBytes, cursor, cur] using decodeBytes_go data b #[] rest h hr hd hu

/-- kanji, at the level of codes: decoding the 13-bit codes of assigned characters yields the UTF-8
encoding of those characters -/
theorem decodeKanji_inverse (b : Buffer) (h : Inv b) (hr : b.read < 8) (codes : List Nat)
    (hc : ∀ c ∈ codes, c < 8192 ∧ refAt c ≠ 0) (rest : List Bool) (hu : unread b = kanjiBits codes ++ rest) :
    ∃ b', decodeKanji b codes.length = .ok (b', codes.flatMap fun c => Model.Utf8.encodeRune (refAt c)) ∧
      b'.buf = b.buf ∧ b'.wrote = b.wrote ∧ b'.read < 8 ∧ cursor b' = cursor b + 13 * codes.length := by
  simpa [decodeKanji, cursor, cur] using decodeKanji_go codes b #[] rest h hr hc hu

/-- out-of-range groups are rejected: a first 10-bit group ≥ 1000 (resp. 7-bit ≥ 100, 4-bit ≥ 10) -/
theorem decodeNumeric_rejects (b : Buffer) (h : Inv b) (hr : b.read < 8) (n v : Nat) (rest : List Bool)
    (hv : if n ≥ 3 then v ≥ 1000 ∧ v < 1024 ∧ unread b = bitsMSB v 10 ++ rest
          else if n = 2 then v ≥ 100 ∧ v < 128 ∧ unread b = bitsMSB v 7 ++ rest
          else n = 1 ∧ v ≥ 10 ∧ v < 16 ∧ unread b = bitsMSB v 4 ++ rest) :
    (decodeNumeric b n).isErr = true := by
  exact decodeNumeric_go_rejects b h hr #[] n v rest hv

theorem decodeAlphanumeric_rejects (b : Buffer) (h : Inv b) (hr : b.read < 8) (n v : Nat) (rest : List Bool)
    (hv : if n ≥ 2 then v ≥ 45 * 45 ∧ v < 2048 ∧ unread b = bitsMSB v 11 ++ rest
          else n = 1 ∧ v ≥ 45 ∧ v < 64 ∧ unread b = bitsMSB v 6 ++ rest) :
    (decodeAlphanumeric b n).isErr = true := by
  exact decodeAlphanumeric_go_rejects b h hr #[] n v rest hv

/-- an unassigned kanji code (or one beyond the table) is rejected, not answered with invented data -/
theorem decodeKanji_rejects_unassigned (b : Buffer) (h : Inv b) (hr : b.read < 8) (n code : Nat) (hn : 0 < n)
    (hcode : code < 8192) (hu0 : refAt code = 0) (rest : List Bool) (hu : unread b = bitsMSB code 13 ++ rest) :
    (decodeKanji b n).isErr = true := by
  exact decodeKanji_go_rejects b h hr #[] n code hn hcode hu0 rest hu

/-- whatever the numeric decoder accepts consists of digits (needed by C07) -/
theorem decodeNumeric_sound (b b' : Buffer) (n : Nat) (data : List Nat) (h : Inv b) (hr : b.read < 8)
    (hd : decodeNumeric b n = .ok (b', data)) :
    data.length = n ∧ ∀ ch ∈ data, isNumeric ch = true := by
  have _ := h; have _ := hr  -- not needed: the loop alone guarantees it
  obtain ⟨h1, h2⟩ := decodeNumeric_go_sound n b #[] b' data hd
  exact ⟨by simpa using h1, fun ch hch => (h2 ch hch).resolve_left (by simp)⟩

theorem decodeAlphanumeric_sound (b b' : Buffer) (n : Nat) (data : List Nat) (h : Inv b) (hr : b.read < 8)
    (hd : decodeAlphanumeric b n = .ok (b', data)) :
    data.length = n ∧ ∀ ch ∈ data, isAlphanumeric ch = true := by
  have _ := h; have _ := hr  -- not needed: the loop alone guarantees it
  obtain ⟨h1, h2⟩ := decodeAlphanumeric_go_sound n b #[] b' data hd
  exact ⟨by simpa using h1, fun ch hch => (h2 ch hch).resolve_left (by simp)⟩

/-! non-vacuity -/
example : encodeKanjiRune 0x65E5 = some 3642 ∧ refAt 3642 = 0x65E5 := by decide +kernel
example : isNumeric 0x37 = true ∧ isAlphanumeric 0x24 = true := by decide +kernel

end QRV.Props.C17
