import QRV.Lemmas.GFField
/-
C15 — GF(2^8) arithmetic is the field defined by 0x11D with generator 2.

Statements are about `QRV.Model.GF` (a function-for-function model of element.go over the tables
regenerated from /repo on every run) and `QRV.Spec.GF` (written from the definition, no tables).
Elements are naturals below 256.  All quantifiers are over the whole field.
-/
namespace QRV.Props.C15
open QRV QRV.Model.GF QRV.Spec.GF QRV.Lemmas.GF

/-- Mul equals carry-less polynomial multiplication reduced by 0x11D, for all 65,536 pairs. -/
theorem mul_is_clmul (a b : Nat) (ha : a < 256) (hb : b < 256) : mul a b = smul a b :=
  mul_eq_smul a ha b hb

/-- Exp(k) is 2^k in that field (k ranges over the whole 256-entry table). -/
theorem exp_is_pow (k : Nat) (hk : k ≤ 255) : expT k = pow2 k := exp_eq_pow2 k hk

/-- `Exp n = 2^(n mod 255)` for every non-negative argument, and never panics there. -/
theorem Exp_nonneg (n : Nat) : exp (n : Int) = .ok (pow2 (n % 255)) := by
  unfold exp
  have h1 : ¬ ((n : Int) < 0 ∧ Int.tmod (n : Int) 255 ≠ 0) := by omega
  rw [if_neg h1]
  have h2 : (Int.tmod (n : Int) 255).toNat = n % 255 := by
    rw [Int.tmod_eq_emod_of_nonneg (by omega)]; omega
  rw [h2, exp_eq_pow2 _ (by omega)]

/-- `Exp` on negative arguments: Go's `%` truncates towards zero, so a negative exponent indexes the
table out of range (run-time panic) unless it is a multiple of 255, where the answer is α^0 = 1 -/
theorem Exp_panics_iff (n : Int) : (exp n).isPanic = true ↔ (n < 0 ∧ Int.tmod n 255 ≠ 0) := by
  unfold exp
  split <;> simp_all [Out.isPanic]

/-- Log is the inverse of Exp on non-zero elements, in both directions. -/
theorem log_exp_inverse (k : Nat) (hk : k < 255) : log (expT k) = .ok k := by
  unfold log; rw [if_neg (exp_ne_zero k (by omega)), log_exp k hk]

theorem exp_log_inverse (a : Nat) (ha : a < 256) (h0 : a ≠ 0) :
    ∃ l, log a = .ok l ∧ l < 255 ∧ expT l = a := by
  refine ⟨logT a, ?_, log_lt a ha, exp_log a ha h0⟩
  unfold log; rw [if_neg h0]

/-- Log and Inv panic exactly on zero. -/
theorem log_panics_iff (a : Nat) : (log a).isPanic = true ↔ a = 0 := by
  unfold log; split <;> simp_all [Out.isPanic]
theorem inv_panics_iff (a : Nat) : (inv a).isPanic = true ↔ a = 0 := by
  unfold inv; split <;> simp_all [Out.isPanic]

/-- Inv(a) * a = 1 -/
theorem inv_mul_self (a : Nat) (ha : a < 256) (h0 : a ≠ 0) :
    ∃ i, inv a = .ok i ∧ i < 256 ∧ mul i a = 1 := by
  refine ⟨inv' a, ?_, inv_lt a ha, inv_mul a ha h0⟩
  unfold inv inv'; rw [if_neg h0]

/-- the exp/log tables have exactly the 256 entries the arithmetic indexes -/
theorem table_lengths : Gen.GF.expLen = 256 ∧ Gen.GF.logLen = 256 := Lemmas.GF.table_lengths

/-- closure -/
theorem closed (a b : Nat) (ha : a < 256) (hb : b < 256) : add a b < 256 ∧ mul a b < 256 :=
  ⟨add_lt ha hb, mul_lt ha hb⟩

/-- The field axioms for all 2^24 triples (no enumeration of triples: derived from the table facts). -/
theorem field_axioms (a b c : Nat) (ha : a < 256) (hb : b < 256) (hc : c < 256) :
    add (add a b) c = add a (add b c) ∧ add a b = add b a ∧ add a 0 = a ∧ add a a = 0 ∧
    mul (mul a b) c = mul a (mul b c) ∧ mul a b = mul b a ∧ mul a 1 = a ∧
    mul a (add b c) = add (mul a b) (mul a c) ∧ mul (add a b) c = add (mul a c) (mul b c) ∧
    (a ≠ 0 → mul a (inv' a) = 1) :=
  ⟨add_assoc a b c, add_comm a b, add_zero a, add_self a,
   mul_assoc ha hb hc, mul_comm a b, mul_one ha,
   mul_add ha hb hc, add_mul ha hb hc, fun h0 => mul_inv_cancel ha h0⟩

/-- no zero divisors -/
theorem no_zero_divisors (a b : Nat) : mul a b = 0 ↔ a = 0 ∨ b = 0 := mul_eq_zero_iff

/-- `AddMulExp x y z = x + α^y · α^z` on the argument ranges the coders use (y a logarithm, z a tap). -/
theorem addMulExp_spec (x y z : Nat) (hy : y < 255) (hz : z < 255) :
    addMulExp x y z = .ok (add x (mul (expT y) (expT z))) := by
  unfold addMulExp
  have h : Int.tmod ((y : Int) + (z : Int)) 255 = (((y + z) % 255 : Nat) : Int) := by
    rw [Int.tmod_eq_emod_of_nonneg (by omega)]; omega
  simp only [h]
  rw [if_neg (by omega)]
  rw [exp_add_mod hy hz]
  rfl

/-! non-vacuity: concrete field elements meet the hypotheses and exercise the reduction -/
example : mul 0x80 2 = 0x1D ∧ smul 0x80 2 = 0x1D ∧ (0x80 : Nat) < 256 := by decide +kernel
example : exp 300 = .ok (pow2 45) := Exp_nonneg 300

end QRV.Props.C15
