import QRV.Props.C01
import QRV.Props.C02
import QRV.Props.C10
import QRV.Spec.Symbol
import QRV.Lemmas.SymWalk
import QRV.Lemmas.SymEncode
import QRV.Lemmas.SymUnique
/-
C02 — QR versions 1-40: the emitted symbol IS the standard's symbol of the description, module by
module (`Spec.Symbol.QR.IsSymbol`: data stream, block structure, Reed-Solomon codewords,
interleaving, placement order, masking, format and version information, function patterns).
-/
namespace QRV.Props.C02
open QRV QRV.Model QRV.Model.Sym QRV.Model.Bitmap QRV.Spec.Valid QRV.Spec.Symbol.QR

/-- the placement order of the model's walk is the standard's, for every version: the coordinates
visited by the walk over the regenerated function-module map are exactly `dataCoords v` -/
theorem qr_walk_is_standard (v : Nat) (h1 : 1 ≤ v) (h40 : v ≤ 40) (cs : List (Int × Int))
    (h : Lemmas.RT.walk (Lemmas.RT.usedFn v) (16 + 4 * (v : Int)) (Lemmas.RT.fuelOf (16 + 4 * (v : Int)))
      (Lemmas.RT.start (16 + 4 * (v : Int))) = some cs) :
    cs.map (fun c => (c.1.toNat, c.2.toNat)) = dataCoords v ∧ ∀ c ∈ cs, 0 ≤ c.1 ∧ 0 ≤ c.2 :=
  Lemmas.SymWalk.walk_standard v h1 h40 cs h

/-- explicit mask m: the encoder's output is a regular bitmap of the version's size whose pixels are
the standard's symbol of the description with mask pattern m -/
theorem qr_symbol (q : QRCode) (hv : QR.Valid q) (m : Nat) (hm : m < 8) (hq : q.mask = (m : Int)) :
    ∃ img, Model.QR.encodeToBitmap q = .ok img ∧
      C18.Regular img (Spec.Patterns.QR.size q.version.toNat) (Spec.Patterns.QR.size q.version.toNat) ∧
      IsSymbol q m (C18.px img) := by
  obtain ⟨version, level, mask, segments⟩ := q
  have hv' := hv
  obtain ⟨⟨hv1, hv40⟩, ⟨hl0, hl4⟩, -, -, -⟩ := hv'
  simp only at hv1 hv40 hl0 hl4 hq
  obtain ⟨v, rfl⟩ := Int.eq_ofNat_of_zero_le (show 0 ≤ version by omega)
  obtain ⟨l, rfl⟩ := Int.eq_ofNat_of_zero_le hl0
  obtain ⟨img, m', henc, -, hmeq, hreg, hsym⟩ := Lemmas.SymEncode.symbol_core v l mask segments hv
  have hmm : m' = m := by have := hmeq (by omega); omega
  subst hmm
  exact ⟨img, henc, by simpa [Spec.Patterns.QR.size] using hreg, hsym⟩

/-- automatic mask: the output is the standard's symbol for some mask pattern m in 0..7 -/
theorem qr_symbol_auto (q : QRCode) (hv : QR.Valid q) (hq : q.mask = -1) :
    ∃ img m, m < 8 ∧ Model.QR.encodeToBitmap q = .ok img ∧
      C18.Regular img (Spec.Patterns.QR.size q.version.toNat) (Spec.Patterns.QR.size q.version.toNat) ∧
      IsSymbol q m (C18.px img) := by
  have _ := hq
  obtain ⟨version, level, mask, segments⟩ := q
  have hv' := hv
  obtain ⟨⟨hv1, hv40⟩, ⟨hl0, hl4⟩, -, -, -⟩ := hv'
  simp only at hv1 hv40 hl0 hl4
  obtain ⟨v, rfl⟩ := Int.eq_ofNat_of_zero_le (show 0 ≤ version by omega)
  obtain ⟨l, rfl⟩ := Int.eq_ofNat_of_zero_le hl0
  obtain ⟨img, m, henc, hm8, -, hreg, hsym⟩ := Lemmas.SymEncode.symbol_core v l mask segments hv
  exact ⟨img, m, hm8, henc, by simpa [Spec.Patterns.QR.size] using hreg, hsym⟩

/-- the specification determines the symbol: two pixel functions that are both the symbol of
(q, m) agree on every module of the symbol (the Reed-Solomon codeword condition fixes the error
correction codewords: C14 minimum distance) -/
theorem qr_symbol_unique (q : QRCode) (hv : QR.Valid q) (m : Nat) (px px' : Nat → Nat → Bool)
    (h : IsSymbol q m px) (h' : IsSymbol q m px') :
    ∀ x y, x < Spec.Patterns.QR.size q.version.toNat → y < Spec.Patterns.QR.size q.version.toNat →
      px x y = px' x y := by
  obtain ⟨version, level, mask, segments⟩ := q
  have hv' := hv
  obtain ⟨⟨hv1, hv40⟩, ⟨hl0, hl4⟩, -, -, -⟩ := hv'
  simp only at hv1 hv40 hl0 hl4
  obtain ⟨v, rfl⟩ := Int.eq_ofNat_of_zero_le (show 0 ≤ version by omega)
  obtain ⟨l, rfl⟩ := Int.eq_ofNat_of_zero_le hl0
  simpa [Spec.Patterns.QR.size] using Lemmas.SymUnique.symbol_unique v l mask segments hv m px px' h h'

end QRV.Props.C02
