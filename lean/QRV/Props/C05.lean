import QRV.Model.QR
import QRV.Model.Micro
import QRV.Model.RMQR
import QRV.Spec.Valid
import QRV.Lemmas.TablesFinite
import QRV.Lemmas.CalcVersion
/-
C05 — New picks the smallest symbol that fits and rejects only what cannot fit.

`calcVersion` of the three packages is a first-fit scan over an order list; "fit" is measured with
the model's `segLength`, shown equal to the standard's bit length `Spec.Valid.QR.segBits`.
-/
namespace QRV.Props.C05
open QRV QRV.Model QRV.Model.Sym QRV.Spec.Valid

/-- supported QR data modes -/
def QRMode (m : Nat) : Prop := m = 1 ∨ m = 2 ∨ m = 4 ∨ m = 8

/-- the model's segment length is the standard's bit length, for every mode, version and remainder
class (kanji counted per character) -/
theorem qr_length_agrees (s : Segment) (v : Nat) (hm : QRMode s.mode) (h1 : 1 ≤ v) (h40 : v ≤ 40) :
    Model.QR.segLength s (v : Int) = .ok (QR.segBits s v) := by
  exact Lemmas.CalcVersion.qr_length_agrees s v hm h1 h40

/-- total standard bit length of a segment list -/
def totalBits (segs : List Segment) (v : Nat) : Nat := (segs.map fun s => QR.segBits s v).sum

/-- capacity in bits as the regenerated table has it (equal to the standard's by C02) -/
def capBits (v level : Nat) : Nat := ((Gen.QR.capacityTable[v]?.getD [])[level]?.map (·.data * 8)).getD 0

/-- QR: the returned version holds the segments and no smaller version does; 0 is returned only
when no version holds them -/
theorem qr_calcVersion_minimal (level : Nat) (hl : level < 4) (segs : List Segment) (hm : ∀ s ∈ segs, QRMode s.mode) :
    ∃ v : Nat, Model.QR.calcVersion (level : Int) segs = .ok (v : Int) ∧ v ≤ 40 ∧
      (v ≠ 0 → totalBits segs v ≤ capBits v level ∧ ∀ v', 1 ≤ v' → v' < v → capBits v' level < totalBits segs v') ∧
      (v = 0 → ∀ v', 1 ≤ v' → v' ≤ 40 → capBits v' level < totalBits segs v') := by
  exact Lemmas.CalcVersion.qr_calcVersion_minimal level hl segs hm

/-- rMQR: the height and width orders are sorted by that measure (kernel evaluation), so a first
fit over them is a version of least height / width -/
theorem rmqr_orders_sorted :
    Lemmas.Tables.sortedBy Spec.Patterns.RMQR.height Gen.RMQR.orderHeight = true ∧
    Lemmas.Tables.sortedBy Spec.Patterns.RMQR.width Gen.RMQR.orderWidth = true :=
  Lemmas.Tables.rmqr_orders_height_width

/-- total length of a segment list in an rMQR version, `none` if some segment cannot be
represented there (unsupported mode or count too large) -/
def rmLen (segs : List Segment) (v level : Int) : Option Nat :=
  segs.foldl (fun acc s =>
    match acc, Model.RMQR.segLength s v level with
    | some a, .ok (some l) => some (a + l)
    | _, _ => none) (some 0)

def rmCapBits (v : Int) (level : Nat) : Nat :=
  ((Gen.RMQR.capacityTable[v.toNat]?.getD [])[level]?.map (·.data * 8)).getD 0

def rmFits (level : Nat) (segs : List Segment) (v : Int) : Prop :=
  ∃ n, rmLen segs v (level : Int) = some n ∧ n ≤ rmCapBits v level

def rmOrder (prio : Nat) : List Int :=
  if prio = 0 then Gen.RMQR.orderArea else if prio = 1 then Gen.RMQR.orderHeight else Gen.RMQR.orderWidth

/-- rMQR: `calcVersion` returns the FIRST version of the order list of the requested priority that
holds the segments (it never skips a fitting one), or none if none does -/
theorem rmqr_calcVersion_first_fit (level prio : Nat) (hl : level < 2) (hp : prio < 3) (segs : List Segment) :
    ∃ r, Model.RMQR.calcVersion (level : Int) (prio : Int) segs = .ok r ∧
      (∀ v, r = some v → rmFits level segs v ∧
        ∃ i : Nat, (rmOrder prio)[i]? = some v ∧ ∀ j : Nat, j < i → ∀ v', (rmOrder prio)[j]? = some v' → ¬ rmFits level segs v') ∧
      (r = none → ∀ v ∈ rmOrder prio, ¬ rmFits level segs v) := by
  exact Lemmas.CalcVersion.rmqr_calcVersion_first_fit level prio hl hp segs

/-! non-vacuity -/
example : Model.QR.calcVersion 0 [{ mode := 1, data := List.replicate 41 0x31 }] = .ok 2 := by decide +kernel

end QRV.Props.C05
