import QRV.Props.C05Ext
import QRV.Lemmas.NewQRValid
import QRV.Lemmas.NewMicroValid
import QRV.Lemmas.NewRMQRValid
/-!
# C05 on `New` itself (end to end)

`Props/C05.lean` / `C05Ext.lean` state the minimality of `calcVersion` for ANY segment list.  Here the first clause of
C05 is stated on `New`: the version `New` returns holds the segments `New` returns and is the smallest such one
(lowest version number for QR and Micro QR; least height / least width for rMQR with those priorities; the first
fitting entry of the area order list for the area priority, see finding D19) - for both mode-selection programmes,
the empty payload and the byte-mode fallback of the QR kanji programme included.
-/
namespace QRV.Props.C05
open QRV QRV.Model QRV.Model.Sym QRV.Lemmas.CalcVersion

/-- QR: the version `New` returns holds the segments `New` returns, and no smaller version does -/
theorem qr_new_minimal (level : Nat) (hl : level < 4) (kanji : Bool) (data : List Nat) (hb : ∀ b ∈ data, b < 256)
    (hsz : data.length < 2 ^ 56) (q : QRCode) (h : Model.QR.new (level : Int) kanji data = .ok q) :
    ∃ v : Nat, q.version = (v : Int) ∧ 1 ≤ v ∧ v ≤ 40 ∧ totalBits q.segments v ≤ capBits v level ∧
      ∀ v', 1 ≤ v' → v' < v → capBits v' level < totalBits q.segments v' := by
  obtain ⟨_, hcase⟩ := Lemmas.NewQRValid.new_cases (level : Int) kanji data q h
  rcases hcase with ⟨rfl, rfl⟩ | ⟨hne, segs, v, hs, hv, hv0, rfl⟩
  · exact ⟨1, rfl, Nat.le_refl 1, by omega, Nat.zero_le _, fun v' h1 h2 => by omega⟩
  · obtain ⟨_, _, _, hsegs⟩ := Lemmas.NewQRValid.new_segs_out kanji data hb hne hsz segs hs
    obtain ⟨v', hv', hv40, hfit, _⟩ := qr_calcVersion_minimal level hl segs (fun s hs => (hsegs s hs).1)
    rw [hv] at hv'
    cases hv'
    have hv0' : v' ≠ 0 := by intro h0; exact hv0 (by rw [h0]; rfl)
    exact ⟨v', rfl, Nat.pos_of_ne_zero hv0', hv40, (hfit hv0').1, (hfit hv0').2⟩

/-- Micro QR: the version `New` returns is the lowest version that holds the segments `New` returns at that level -/
theorem micro_new_minimal (level : Nat) (hl : level < 4) (kanji : Bool) (data : List Nat) (q : QRCode)
    (h : Model.Micro.new (level : Int) kanji data = .ok q) :
    ∃ v : Nat, q.version = (v : Int) ∧ 1 ≤ v ∧ v ≤ 4 ∧ microFits level q.segments v ∧
      ∀ v', 1 ≤ v' → v' < v → ¬ microFits level q.segments v' := by
  obtain ⟨_, hcase⟩ := Lemmas.NewMicroValid.new_cases (level : Int) kanji data q h
  rcases hcase with ⟨rfl, v, hv, rfl⟩ | ⟨hne, segs, v, hs, hv, hv0, rfl⟩
  · obtain ⟨v', hv', hv4, hfit, hnone⟩ := micro_calcVersion_minimal level hl []
    rw [hv] at hv'
    cases hv'
    have hv0 : v' ≠ 0 := by
      intro h0
      have hany := Lemmas.forall_lt_of_all Lemmas.NewMicroValid.level_has_version level hl
      obtain ⟨w, hw, hw'⟩ := List.any_eq_true.1 hany
      simp only [Bool.and_eq_true, decide_eq_true_eq, List.mem_range] at hw hw'
      obtain ⟨c, hc⟩ := Option.isSome_iff_exists.1 hw'.2
      exact hnone h0 w hw'.1 (by omega) ⟨c, hc, fun s hs => (by cases hs), Nat.zero_le _⟩
    exact ⟨v', rfl, Nat.pos_of_ne_zero hv0, hv4, (hfit hv0).1, (hfit hv0).2⟩
  · obtain ⟨v', hv', hv4, hfit, _⟩ := micro_calcVersion_minimal level hl segs
    rw [hv] at hv'
    cases hv'
    have hv0' : v' ≠ 0 := by intro h0; exact hv0 (by rw [h0]; rfl)
    exact ⟨v', rfl, Nat.pos_of_ne_zero hv0', hv4, (hfit hv0').1, (hfit hv0').2⟩

/-- rMQR, priority height (1) / width (2): the version `New` returns holds the segments `New` returns and has the
least height / width among ALL versions that hold them -/
theorem rmqr_new_least (level prio : Nat) (hl : level < 2) (hp : prio = 1 ∨ prio = 2) (kanji : Bool) (data : List Nat)
    (q : QRCode) (h : Model.RMQR.new (level : Int) (prio : Int) kanji data = .ok q) :
    rmFits level q.segments q.version ∧ ∀ v' : Nat, v' < 32 → rmFits level q.segments (v' : Int) →
      (if prio = 1 then Spec.Patterns.RMQR.height q.version.toNat ≤ Spec.Patterns.RMQR.height v'
       else Spec.Patterns.RMQR.width q.version.toNat ≤ Spec.Patterns.RMQR.width v') := by
  obtain ⟨_, hcase⟩ := Lemmas.NewRMQRValid.new_cases (level : Int) (prio : Int) kanji data q h
  rcases hcase with ⟨_, v, hv, rfl⟩ | ⟨_, segs, v, _, hv, rfl⟩
  · exact rmqr_calcVersion_least level prio hl hp [] v hv
  · exact rmqr_calcVersion_least level prio hl hp segs v hv

/-- rMQR, any priority (area included): the version `New` returns is the FIRST entry of the order list of that
priority that holds the segments `New` returns -/
theorem rmqr_new_first_fit (level prio : Nat) (hl : level < 2) (hp : prio < 3) (kanji : Bool) (data : List Nat)
    (q : QRCode) (h : Model.RMQR.new (level : Int) (prio : Int) kanji data = .ok q) :
    rmFits level q.segments q.version ∧
      ∃ i : Nat, (rmOrder prio)[i]? = some q.version ∧
        ∀ j : Nat, j < i → ∀ v', (rmOrder prio)[j]? = some v' → ¬ rmFits level q.segments v' := by
  obtain ⟨_, hcase⟩ := Lemmas.NewRMQRValid.new_cases (level : Int) (prio : Int) kanji data q h
  rcases hcase with ⟨_, v, hv, rfl⟩ | ⟨_, segs, v, _, hv, rfl⟩
  · obtain ⟨r, hr, hsome, _⟩ := rmqr_calcVersion_first_fit level prio hl hp []
    rw [hv] at hr
    cases hr
    exact hsome v rfl
  · obtain ⟨r, hr, hsome, _⟩ := rmqr_calcVersion_first_fit level prio hl hp segs
    rw [hv] at hr
    cases hr
    exact hsome v rfl

/-! non-vacuity: accepted calls of the three `New` (one per symbology, plus the branches that differ) -/
example : Model.QR.new 0 false [0x31, 0x32, 0x33] =
    .ok { version := 1, level := 0, mask := -1, segments := [{ mode := 1, data := [0x31, 0x32, 0x33] }] } := by decide +kernel
example : Model.QR.new 0 true [0x31, 0x32, 0x33] =
    .ok { version := 1, level := 0, mask := -1, segments := [{ mode := 1, data := [0x31, 0x32, 0x33] }] } := by decide +kernel
example : Model.Micro.new 0 false [0x31, 0x32, 0x33] =
    .ok { version := 2, level := 0, mask := -1, segments := [{ mode := 0, data := [0x31, 0x32, 0x33] }] } := by decide +kernel
example : Model.Micro.new 1 false [] = .ok { version := 2, level := 1, mask := -1, segments := [] } := by decide +kernel
example : Model.RMQR.new 0 1 false [0x31, 0x32, 0x33] =
    .ok { version := 0, level := 0, mask := 0, segments := [{ mode := 1, data := [0x31, 0x32, 0x33] }] } := by decide +kernel
example : Model.RMQR.new 0 2 false [0x31, 0x32, 0x33] =
    .ok { version := 10, level := 0, mask := 0, segments := [{ mode := 1, data := [0x31, 0x32, 0x33] }] } := by decide +kernel
example : Model.RMQR.new 0 0 false [0x31, 0x32, 0x33] =
    .ok { version := 0, level := 0, mask := 0, segments := [{ mode := 1, data := [0x31, 0x32, 0x33] }] } := by decide +kernel

end QRV.Props.C05
