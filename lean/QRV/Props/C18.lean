import QRV.Model.Bitmap
import QRV.Lemmas.Bitmap
/-
C18 — bitmap masking flips exactly the maskable modules, for every image width.

Stated about `QRV.Model.Bitmap` (byte-level model of binary.go) against a naive
one-pixel-at-a-time reading `Image.px`.  Domain of the property: images with origin (0,0),
any width and height, with a function map of the same bounds and a pattern of equal or larger
bounds (hence equal or larger stride).
-/
namespace QRV.Props.C18
-- `hw`/`hh` (non-empty image) are kept in the statements but turn out not to be needed by the
-- proofs of mask_ok/mask_spec/mask_padding/mask_involutive
set_option linter.unusedVariables false
open QRV QRV.Model.Bitmap

/-- an image as `bitmap.New(image.Rect(0,0,w,h))` + `SetBinary` can build it -/
structure Regular (i : Image) (w h : Nat) : Prop where
  minX : i.minX = 0
  minY : i.minY = 0
  maxX : i.maxX = (w : Int)
  maxY : i.maxY = (h : Int)
  stride : i.stride = (((w + 7) / 8 : Nat) : Int)
  size : i.pix.size = (w + 7) / 8 * h
  bytes : ∀ b ∈ i.pix.toList, b < 256

/-- naive reading of bit `x` of row `y` (also defined on the padding bits `w ≤ x < 8*stride`) -/
def px (i : Image) (x y : Nat) : Bool :=
  ((i.pix[y * i.stride.toNat + x / 8]?.getD 0) >>> (7 - x % 8)) &&& 1 != 0

/-! bridge to the helper lemmas (`QRV.Lemmas.Bitmap.Reg`/`pxl` are copies of `Regular`/`px`) -/
open QRV.Lemmas.Bitmap in
theorem Regular.reg {i : Image} {w h : Nat} (hr : Regular i w h) : Reg i w h :=
  ⟨hr.minX, hr.minY, hr.maxX, hr.maxY, hr.stride, hr.size, hr.bytes⟩
open QRV.Lemmas.Bitmap in
theorem Regular.of_reg {i : Image} {w h : Nat} (hr : Reg i w h) : Regular i w h :=
  ⟨hr.minX, hr.minY, hr.maxX, hr.maxY, hr.stride, hr.size, hr.bytes⟩
theorem px_eq : px = Lemmas.Bitmap.pxl := rfl

/-- reads: out of bounds is white, in bounds is the naive pixel -/
theorem binaryAt_spec (i : Image) (w h : Nat) (hr : Regular i w h) (x y : Int) :
    i.binaryAt x y = .ok (if 0 ≤ x ∧ x < w ∧ 0 ≤ y ∧ y < h then px i x.toNat y.toNat else false) := by
  rw [px_eq]; exact Lemmas.Bitmap.binaryAt_reg hr.reg x y

/-- writes: out of bounds ignored, in bounds sets exactly that pixel (padding untouched) -/
theorem setBinary_spec (i : Image) (w h : Nat) (hr : Regular i w h) (x y : Int) (c : Bool) :
    ∃ i', i.setBinary x y c = .ok i' ∧ Regular i' w h ∧
      ∀ x' y', x' < 8 * ((w + 7) / 8) → y' < h →
        px i' x' y' = if (0 ≤ x ∧ x < w ∧ 0 ≤ y ∧ y < h ∧ x' = x.toNat ∧ y' = y.toNat) then c else px i x' y' := by
  obtain ⟨i', h1, h2, h3⟩ := Lemmas.Bitmap.setBinary_reg hr.reg x y c
  exact ⟨i', h1, .of_reg h2, h3⟩

theorem xorBinary_spec (i : Image) (w h : Nat) (hr : Regular i w h) (x y : Int) (c : Bool) :
    ∃ i', i.xorBinary x y c = .ok i' ∧ Regular i' w h ∧
      ∀ x' y', x' < 8 * ((w + 7) / 8) → y' < h →
        px i' x' y' = if (0 ≤ x ∧ x < w ∧ 0 ≤ y ∧ y < h ∧ x' = x.toNat ∧ y' = y.toNat) then (px i x' y' != c) else px i x' y' := by
  obtain ⟨i', h1, h2, h3⟩ := Lemmas.Bitmap.xorBinary_reg hr.reg x y c
  exact ⟨i', h1, .of_reg h2, h3⟩

/-- Mask succeeds on the property's domain and yields an image of the same shape -/
theorem mask_ok (inp used pat : Image) (w h pw ph : Nat) (hw : 0 < w) (hh : 0 < h)
    (hi : Regular inp w h) (hu : Regular used w h) (hp : Regular pat pw ph) (hpw : w ≤ pw) (hph : h ≤ ph) :
    ∃ out, Image.mask inp used pat = .ok out ∧ Regular out w h := by
  obtain ⟨out, h1, h2, -⟩ := Lemmas.Bitmap.mask_reg hi.reg hu.reg hp.reg hpw hph
  exact ⟨out, h1, .of_reg h2⟩

/-- Mask flips precisely the pixels inside the image that are not function modules and are dark in
the pattern -/
theorem mask_spec (inp used pat out : Image) (w h pw ph : Nat) (hw : 0 < w) (hh : 0 < h)
    (hi : Regular inp w h) (hu : Regular used w h) (hp : Regular pat pw ph) (hpw : w ≤ pw) (hph : h ≤ ph)
    (ho : Image.mask inp used pat = .ok out) (x y : Nat) (hx : x < w) (hy : y < h) :
    px out x y = (px inp x y != (!px used x y && px pat x y)) := by
  obtain ⟨out', h1, -, h3, -⟩ := Lemmas.Bitmap.mask_reg hi.reg hu.reg hp.reg hpw hph
  obtain rfl : out' = out := by rw [h1] at ho; injection ho
  rw [px_eq, h3 x y (by omega) hy]; simp [hx]

/-- ... and leaves the padding bits of every row untouched -/
theorem mask_padding (inp used pat out : Image) (w h pw ph : Nat) (hw : 0 < w) (hh : 0 < h)
    (hi : Regular inp w h) (hu : Regular used w h) (hp : Regular pat pw ph) (hpw : w ≤ pw) (hph : h ≤ ph)
    (ho : Image.mask inp used pat = .ok out) (x y : Nat) (hx : w ≤ x) (hx' : x < 8 * ((w + 7) / 8)) (hy : y < h) :
    px out x y = px inp x y := by
  obtain ⟨out', h1, -, h3, -⟩ := Lemmas.Bitmap.mask_reg hi.reg hu.reg hp.reg hpw hph
  obtain rfl : out' = out := by rw [h1] at ho; injection ho
  rw [px_eq, h3 x y hx' hy]; simp [Nat.not_lt.mpr hx]

/-- applying the mask twice restores the image, byte for byte -/
theorem mask_involutive (inp used pat out : Image) (w h pw ph : Nat) (hw : 0 < w) (hh : 0 < h)
    (hi : Regular inp w h) (hu : Regular used w h) (hp : Regular pat pw ph) (hpw : w ≤ pw) (hph : h ≤ ph)
    (ho : Image.mask inp used pat = .ok out) :
    Image.mask out used pat = .ok inp := by
  obtain ⟨out', h1, -, -, h4⟩ := Lemmas.Bitmap.mask_reg hi.reg hu.reg hp.reg hpw hph
  obtain rfl : out' = out := by rw [h1] at ho; injection ho
  exact h4

/-- Mask panics when the bounds of image and function map differ (and both are non-empty) -/
theorem mask_bounds_panic (inp used pat : Image) (w h w' h' : Nat) (hw : 0 < w) (hh : 0 < h)
    (hi : Regular inp w h) (hu : Regular used w' h') (hne : w ≠ w' ∨ h ≠ h') :
    (Image.mask inp used pat).isPanic = true := by
  exact Lemmas.Bitmap.mask_panic hw hh hi.reg hu.reg hne

/-- dark-pixel counting agrees with counting pixels one at a time -/
theorem onesCount_spec (i : Image) (w h : Nat) (hr : Regular i w h) :
    i.onesCount = .ok (((List.range h).map fun y => ((List.range w).filter fun x => px i x y).length).sum) := by
  exact Lemmas.Bitmap.onesCount_reg hr.reg

/-- Clone is a value copy -/
theorem clone_eq (i : Image) : i.clone = i := rfl

/-! non-vacuity: a 3x2 image (width not a multiple of 8) meets `Regular` -/
example : Regular { pix := #[0xA0, 0x40], stride := 1, minX := 0, minY := 0, maxX := 3, maxY := 2 } 3 2 := by
  constructor <;> simp

end QRV.Props.C18
