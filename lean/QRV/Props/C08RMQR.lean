import QRV.Props.C08Ext
import QRV.Props.C01RMQR
/-
C08 — rMQR: the encoder accepts exactly the valid descriptions and never panics
(error-or-valid lemma C08Ext + round-trip theorem C01RMQR).  The rMQR package has no mask field:
the model ignores `q.mask`, validity is about the description with the mask field set to 0.
-/
namespace QRV.Props.C08
open QRV QRV.Model QRV.Model.Sym QRV.Spec.Valid

/-- the model of the rMQR encoder does not look at the mask field -/
theorem rmqr_mask_irrelevant (q : QRCode) :
    Model.RMQR.encodeToBitmap q = Model.RMQR.encodeToBitmap { q with mask := 0 } := rfl

/-- rMQR: no value of Version, Level, no mode byte and no segment contents makes the encoder panic -/
theorem rmqr_encode_no_panic (q : QRCode) (hb : Bytes q) : (Model.RMQR.encodeToBitmap q).isPanic = false := by
  rcases rmqr_encode_err_or_valid q hb with ⟨msg, he⟩ | hv
  · rw [he]; rfl
  · obtain ⟨img, h, _⟩ := C01.roundtrip_RMQR _ hv
    rw [rmqr_mask_irrelevant, h]; rfl

/-- rMQR: accepted exactly when valid -/
theorem rmqr_encode_ok_iff_valid (q : QRCode) (hb : Bytes q) :
    (∃ img, Model.RMQR.encodeToBitmap q = .ok img) ↔ RMQR.Valid { q with mask := 0 } := by
  constructor
  · rintro ⟨img, h⟩
    rcases rmqr_encode_err_or_valid q hb with ⟨msg, he⟩ | hv
    · rw [he] at h; cases h
    · exact hv
  · intro hv
    obtain ⟨img, h, _⟩ := C01.roundtrip_RMQR _ hv
    exact ⟨img, by rw [rmqr_mask_irrelevant]; exact h⟩

end QRV.Props.C08
