import QRV.Props.C02Symbol
import QRV.Props.C02SymbolMicro
import QRV.Props.C02SymbolRMQR
import QRV.Props.C01MicroWeak
import QRV.Props.C01RMQR
import QRV.Lemmas.ConfQR
import QRV.Lemmas.ConfMicro
import QRV.Lemmas.ConfRMQR
/-
C03 / C01 — "an undamaged conformant symbol produced by another encoder is read correctly", at the
level of the declarative symbols: ANY regular bitmap whose pixels are the standard's symbol of a
valid description (`Spec.Symbol.*.IsSymbol`) decodes to that description.
`C18.Regular` leaves the padding bits of the rows free, so the bitmap need not equal the library's
output; the proofs go through the whole-symbol correction theorems (C03) with zero damage, whose
hypotheses only mention modules inside the symbol.
-/
namespace QRV.Props.C03
open QRV QRV.Model QRV.Model.Sym QRV.Model.Bitmap QRV.Spec.Valid

/-- QR -/
theorem qr_reads_conformant_symbol (q : QRCode) (hv : QR.Valid q) (m : Nat) (hm : m < 8) (img : Image)
    (hr : C18.Regular img (Spec.Patterns.QR.size q.version.toNat) (Spec.Patterns.QR.size q.version.toNat))
    (hs : Spec.Symbol.QR.IsSymbol q m (C18.px img)) :
    Model.QR.decodeBitmap img = .ok { q with mask := (m : Int) } :=
  Lemmas.Conf.qr_reads_conformant q hv m hm img hr hs

/-- Micro QR (segments the decoder can tell apart: no empty numeric segment, no empty M4 segment) -/
theorem micro_reads_conformant_symbol (q : QRCode) (hv : Micro.Valid q) (hp : C01.MicroParsable q) (m : Nat) (hm : m < 4)
    (img : Image)
    (hr : C18.Regular img (Spec.Patterns.Micro.size q.version.toNat) (Spec.Patterns.Micro.size q.version.toNat))
    (hs : Spec.Symbol.Micro.IsSymbol q m (C18.px img)) :
    Model.Micro.decodeBitmap img = .ok { q with mask := (m : Int) } :=
  Lemmas.Conf.micro_reads_conformant q hv hp m hm img hr hs

/-- rMQR: the standard's symbol is read correctly in EVERY version, although in 11 versions the library's
walk does not read the column-1 modules (finding D18): the Reed-Solomon step makes up for the
codeword that is read incompletely -/
theorem rmqr_reads_conformant_symbol (q : QRCode) (hv : RMQR.Valid q) (img : Image)
    (hr : C18.Regular img (Spec.Patterns.RMQR.width q.version.toNat) (Spec.Patterns.RMQR.height q.version.toNat))
    (hs : Spec.Symbol.RMQR.IsSymbol q (C18.px img)) :
    Model.RMQR.decodeBitmap img = .ok q :=
  Lemmas.Conf.rmqr_reads_conformant q hv img hr hs

end QRV.Props.C03
