import QRV.Props.C01
import QRV.Lemmas.EncValid
import QRV.Lemmas.EncFields
/-
C08 — encoders accept exactly the valid symbol descriptions and never panic.

Stated about `Model.QR.encodeToBitmap` (and, where noted, the Micro QR / rMQR models) against the
standard's validity predicate `Spec.Valid`.  `Bytes q` is the Go type invariant of `[]byte`.
-/
namespace QRV.Props.C08
open QRV QRV.Model QRV.Model.Sym QRV.Spec.Valid

/-- segment data are byte strings (type invariant of the Go API) -/
def Bytes (q : QRCode) : Prop := ∀ s ∈ q.segments, ∀ b ∈ s.data, b < 256

/-- QR: no value of Version, Level, Mask, no mode byte and no segment contents makes the encoder panic -/
theorem qr_encode_no_panic (q : QRCode) (hb : Bytes q) (hm : ∀ s ∈ q.segments, s.mode < 256) :
    (Model.QR.encodeToBitmap q).isPanic = false := by
  have _ := hm  -- not needed: the mode indicator is written masked to four bits
  rcases Lemmas.Enc.encode_err_or_valid q hb with ⟨msg, he⟩ | hv
  · rw [he]; rfl
  · obtain ⟨img, _, h, _⟩ := C01.roundtrip_QR_any q hv
    rw [h]; rfl

/-- QR: every valid description is accepted -/
theorem qr_valid_accepted (q : QRCode) (hv : QR.Valid q) : ∃ img, Model.QR.encodeToBitmap q = .ok img := by
  obtain ⟨img, _, h, _⟩ := C01.roundtrip_QR_any q hv
  exact ⟨img, h⟩

/-- QR: only valid descriptions are accepted (version, level, mask in range; supported modes;
characters valid for the mode; character count representable; total length within capacity) -/
theorem qr_accepted_valid (q : QRCode) (hb : Bytes q) (img : Bitmap.Image)
    (h : Model.QR.encodeToBitmap q = .ok img) : QR.Valid q := by
  rcases Lemmas.Enc.encode_err_or_valid q hb with ⟨msg, he⟩ | hv
  · rw [he] at h; cases h
  · exact hv

/-- QR: accepted exactly when valid -/
theorem qr_encode_ok_iff_valid (q : QRCode) (hb : Bytes q) :
    (∃ img, Model.QR.encodeToBitmap q = .ok img) ↔ QR.Valid q :=
  ⟨fun ⟨img, h⟩ => qr_accepted_valid q hb img h, qr_valid_accepted q⟩

/-- Micro QR and rMQR: out-of-range Version / Level / Mask are answered with an error, not a panic -/
theorem micro_invalid_fields_error (q : QRCode)
    (h : q.version < 1 ∨ q.version > 4 ∨ q.level < 0 ∨ q.level ≥ 4 ∨ q.mask < -1 ∨ q.mask ≥ 4) :
    (Model.Micro.encodeToBitmap q).isErr = true :=
  Lemmas.Enc.micro_invalid_fields_error q h

theorem rmqr_invalid_fields_error (q : QRCode)
    (h : q.version < 0 ∨ q.version ≥ 32 ∨ q.level < 0 ∨ q.level ≥ 2) :
    (Model.RMQR.encodeToBitmap q).isErr = true :=
  Lemmas.Enc.rmqr_invalid_fields_error q h

/-! non-vacuity -/
example : (Model.QR.encodeToBitmap { version := 0, level := 0, mask := 8, segments := [] }).isErr = true := by
  decide +kernel

end QRV.Props.C08
