import QRV.Props.C06
import QRV.Props.C07
import QRV.Lemmas.DecMicro2
/-
C06 / C07 — Micro QR: the decoder is total on every well-formed bitmap, and what it returns is a
well-formed description whose version matches the bitmap's dimensions.
-/
namespace QRV.Props.C06
open QRV QRV.Model QRV.Model.Sym QRV.Model.Bitmap QRV.Spec.Valid

/-- everything `Micro.Valid` asks except the capacity clause; the mask is explicit -/
structure WellFormedMicro (q : QRCode) : Prop where
  version : 1 ≤ q.version ∧ q.version ≤ 4
  level : 0 ≤ q.level
  pair : (Spec.Valid.Micro.dataBits q.version.toNat q.level.toNat).isSome
  mask : 0 ≤ q.mask ∧ q.mask ≤ 3
  segments : ∀ s ∈ q.segments, ∃ k cb, Spec.Valid.Micro.kindOf s.mode = some k ∧
    Spec.Valid.Micro.countBits k q.version.toNat = some cb ∧ ValidData k s.data ∧ count k s.data < 2 ^ cb
  /-- the decoder never returns a segment it would itself read as the terminator or drop -/
  nonempty : ∀ s ∈ q.segments, s.data = [] → s.mode ≠ 0 ∧ q.version ≠ 4

/-- Micro QR: DecodeBitmap never panics and always terminates, for every bitmap whatsoever -/
theorem micro_decode_total (img : Image) (hw : WellFormed img) :
    (Model.Micro.decodeBitmap img).isPanic = false :=
  (Lemmas.Dec.micro_decodeBitmap_sat img hw.wf).not_panic

/-- Micro QR: what DecodeBitmap returns is well-formed and its version matches the dimensions -/
theorem micro_decoded_wf (img : Image) (hw : WellFormed img) (q : QRCode)
    (h : Model.Micro.decodeBitmap img = .ok q) :
    WellFormedMicro q ∧ img.dx = 9 + 2 * q.version ∧ img.dy = img.dx := by
  obtain ⟨hv, hl, hp, hm, hs, hx, hy⟩ := (Lemmas.Dec.micro_decodeBitmap_sat img hw.wf).of_ok h
  refine ⟨⟨hv, hl, hp, hm, fun s hs' => (hs s hs').1, fun s hs' he => ?_⟩, hx, hy⟩
  obtain ⟨h0, h4⟩ := (hs s hs').2 he
  exact ⟨h0, by omega⟩

end QRV.Props.C06
