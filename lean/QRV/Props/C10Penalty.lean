import QRV.Props.C10
import QRV.Spec.Penalty
import QRV.Lemmas.Penalty
/-
C10 — the scores the selection loops minimise / maximise are the standard's: for a regular n × n
bitmap the model's run, block and finder-pattern counters (transcriptions of the Go loops of
internal/bitmap/binary.go) equal the declarative features N1, N2, N3 of ISO/IEC 18004 7.8.3, and the
Micro QR score equals the edge score.  N4 (dark-module ratio) is computed by the Go code in IEEE
double arithmetic, which Lean's kernel cannot reason about (`Float` operations are opaque): it stays
the model's expression and is compared with an exact-rational reference by `bin/check C10`.
-/
namespace QRV.Props.C10
open QRV QRV.Model QRV.Model.Bitmap QRV.Spec.Penalty

theorem n1_spec (img : Image) (n : Nat) (hr : C18.Regular img n n) :
    img.longRunLengthCount = .ok (n1 (C18.px img) n) :=
  Lemmas.Penalty.longRunLengthCount_spec hr

theorem n2_spec (img : Image) (n : Nat) (hr : C18.Regular img n n) :
    img.blockCount = .ok (n2 (C18.px img) n) :=
  Lemmas.Penalty.blockCount_spec hr

theorem n3_spec (img : Image) (n : Nat) (hr : C18.Regular img n n) :
    img.finderPattern = .ok (n3 (C18.px img) n) :=
  Lemmas.Penalty.finderPattern_spec hr

/-- the QR penalty: N1 + N2 + N3 of the standard plus the model's N4 term -/
theorem point_spec (img : Image) (n : Nat) (hr : C18.Regular img n n) :
    ∃ d, img.pointOnesCount = .ok d ∧
      img.point = .ok (n3 (C18.px img) n + n1 (C18.px img) n + n2 (C18.px img) n + d) :=
  Lemmas.Penalty.point_spec hr

-- the hypothesis `1 ≤ n` of the fixed statement is not needed by the proof (for n = 0 both sides are 0)
set_option linter.unusedVariables false in
theorem micro_edge_spec (img : Image) (n : Nat) (hn : 1 ≤ n) (hr : C18.Regular img n n) :
    img.pointMicro = .ok (microEdge (C18.px img) n) :=
  Lemmas.Penalty.pointMicro_spec hr

end QRV.Props.C10
