import QRV.Props.C07
import QRV.Lemmas.DecOverfullQR
import QRV.Lemmas.DecOverfullEx
/-
C07 — finding D16 stated exactly.  The decoders zero-extend a `ReadBits` call that starts before the end of the data
codewords and runs past it (and answer EOF on the next call), so a decoded description can need more bits than the
symbol holds: it then does not re-encode.  `bin/check C07` files such a description under the recorded finding D16
only if the excess lies within ONE read group - the final character group of the last segment, or the count field of
an empty last segment - and reports everything else as a new violation.  This theorem is the justification: whatever
the QR decoder returns, the description minus its last read group fits the data codewords of the symbol.
-/
namespace QRV.Props.C07
open QRV QRV.Model QRV.Model.Sym QRV.Model.Bitmap QRV.Spec.Valid

/-- width of the last group the decoder read for a segment: 10 / 4 / 7 bits for a numeric segment of n ≡ 0 / 1 / 2 (mod 3)
characters, 11 / 6 for an alphanumeric segment of even / odd length, 8 for bytes, 13 for kanji; the count field if the
segment is empty -/
def lastGroupBits (s : Segment) (v : Nat) : Nat :=
  match QR.kindOf s.mode with
  | some k =>
    let n := count k s.data
    if n = 0 then QR.countBits k v
    else match k with
      | 0 => if n % 3 = 1 then 4 else if n % 3 = 2 then 7 else 10
      | 1 => if n % 2 = 0 then 11 else 6
      | 2 => 8
      | _ => 13
  | none => 0

/-- QR: the description the decoder returns exceeds the data codewords of the symbol by less than its last read group -/
theorem qr_decoded_overfull_within_last_group (img : Image) (hw : C06.WellFormed img) (q : QRCode)
    (h : Model.QR.decodeBitmap img = .ok q) (s : Segment) (hs : q.segments.getLast? = some s) :
    (q.segments.map fun t => Spec.Valid.QR.segBits t q.version.toNat).sum <
      8 * Spec.Tables.dataCodewords q.version.toNat q.level.toNat + lastGroupBits s q.version.toNat := by
  have e : lastGroupBits s q.version.toNat = Lemmas.DecOverfull.lastGrp s q.version.toNat := by
    unfold lastGroupBits Lemmas.DecOverfull.lastGrp
    cases QR.kindOf s.mode with
    | none => rfl
    | some k => match k with
      | 0 => rfl
      | 1 => rfl
      | 2 => rfl
      | _ + 3 => rfl
  rw [e]
  exact (Lemmas.DecOverfull.qr_decodeBitmap_over_sat img hw.wf).of_ok h s hs

/-- the same bound for the segment loop over ANY byte buffer (the data codewords after error correction): the
description exceeds the `8 * size` bits of the buffer by less than the last group read for its last segment -/
theorem qr_segmentLoop_overfull_within_last_group (version : Int) (h1 : 1 ≤ version) (h40 : version ≤ 40)
    (bytes : Array Nat) (fuel : Nat) (segs : List Segment)
    (h : Model.QR.segmentLoop version fuel { buf := bytes } #[] = .ok segs) (s : Segment)
    (hs : segs.getLast? = some s) :
    (segs.map fun t => Spec.Valid.QR.segBits t version.toNat).sum <
      8 * bytes.size + Lemmas.DecOverfull.lastGrp s version.toNat :=
  Lemmas.DecOverfull.segmentLoop_over version h1 h40 fuel { buf := bytes } #[]
    ⟨by show (0 : Nat) < 8; decide, by unfold Lemmas.Dec.cur; simp, Or.inl (by simp [Lemmas.DecOverfull.sumBits])⟩
    (by simp) segs h s hs

/-- non-vacuity: the bound is attained strictly above the capacity.  Two codewords `0100 0000 | 0001 1111` (version 1):
byte mode, count 1, and a byte of which only four bits are inside the data - the decoder zero-extends it to 0xF0 and
returns a description of 20 bits for 16 bits of data; 20 < 16 + 8. -/
example :
    Model.QR.segmentLoop 1 24 { buf := #[0x40, 0x1F] } #[] = .ok [{ mode := 4, data := [0xF0] }] ∧
    ([({ mode := 4, data := [0xF0] } : Segment)].map fun t => Spec.Valid.QR.segBits t 1).sum = 20 ∧
    lastGroupBits { mode := 4, data := [0xF0] } 1 = 8 := by
  refine ⟨by decide +kernel, by decide +kernel, by decide +kernel⟩

/-- non-vacuity for bitmaps: a well-formed 21 x 21 bitmap (`Lemmas.DecOverfull.overfullImage`: the version 1 symbol whose
16 data codewords are `0100 | 00001111 | 0000 …` - byte mode, 15 bytes announced, 14 and a half present) on which
`DecodeBitmap` returns a description of 132 bits for 128 bits of data; 132 < 128 + 8. -/
example : ∃ img q s, C06.WellFormed img ∧ Model.QR.decodeBitmap img = .ok q ∧ q.segments.getLast? = some s ∧
    (q.segments.map fun t => Spec.Valid.QR.segBits t q.version.toNat).sum = 132 ∧
    8 * Spec.Tables.dataCodewords q.version.toNat q.level.toNat = 128 ∧ lastGroupBits s q.version.toNat = 8 := by
  obtain ⟨h1, h2, h3, h4, h5⟩ := Lemmas.DecOverfull.overfullImage_wf
  exact ⟨_, _, _, ⟨h1, h2, h3, h4, h5⟩, Lemmas.DecOverfull.overfullImage_decodes, rfl,
    by decide +kernel, by decide +kernel, by decide +kernel⟩

end QRV.Props.C07
