import QRV.Props.C13
import QRV.Lemmas.RSDecode
/-
C14 — the Reed–Solomon decoder is a correct and sound bounded-distance decoder.

Stated about `QRV.Model.RS.decode` (model of reedsolomon.Decode with poly.go: syndromes, Euclidean
algorithm with explicit fuel, Chien search, Forney, root-count check and syndrome re-check).
A fuel exhaustion of the model's loops is a `panic` outcome, so `dec_no_panic` includes termination.
-/
namespace QRV.Props.C14
open QRV QRV.Model QRV.Model.GF QRV.Model.RS QRV.Spec.GF

/-- a byte string -/
def Bytes (l : List Nat) : Prop := ∀ b ∈ l, b < 256

/-- all n syndromes vanish: the word is a codeword of the n-parity code -/
def Codeword (n : Nat) (w : List Nat) : Prop := ∀ i, i < n → Poly.eval w (expT (i % 255)) = 0

/-- number of positions in which two equally long words differ -/
def dist (a b : List Nat) : Nat := ((a.zip b).filter fun p => p.1 != p.2).length

/-- the decoder never panics (and never runs out of fuel: every loop terminates), whatever the input -/
theorem dec_no_panic (data : List Nat) (hd : Bytes data) (n : Nat) :
    (RS.decode data n).isPanic = false :=
  QRV.Lemmas.RS.decode_not_panic hd n

/-- success means: same length, a valid codeword (all n syndromes zero) -/
theorem dec_sound (data data' : List Nat) (hd : Bytes data) (n : Nat)
    (h : RS.decode data n = .ok data') :
    data'.length = data.length ∧ Bytes data' ∧ Codeword n data' :=
  QRV.Lemmas.RS.decode_sound hd h

/-- ... that differs from the input in at most floor(n/2) positions -/
theorem dec_distance (data data' : List Nat) (hd : Bytes data) (n : Nat)
    (h : RS.decode data n = .ok data') :
    dist data data' ≤ n / 2 :=
  QRV.Lemmas.RS.decode_distance hd h

/-- a codeword is returned unchanged -/
theorem dec_clean (data : List Nat) (n : Nat) (hc : Codeword n data) :
    RS.decode data n = .ok data :=
  QRV.Lemmas.RS.decode_clean data n hc

/-- in particular every codeword produced by the (modelled) encoder, for every parity length and
every message: encode-then-decode is the identity -/
theorem dec_of_encoder (n : Nat) (h2 : 2 ≤ n) (h68 : n ≤ 68) (msg : List Nat) (hm : Bytes msg) :
    ∃ par, RS.parity n msg = .ok par ∧ RS.decode (msg ++ par) n = .ok (msg ++ par) := by
  obtain ⟨par, hp, _, _, hz⟩ := C13.parity_is_codeword n h2 h68 msg hm
  refine ⟨par, hp, dec_clean _ n fun i hi => ?_⟩
  rw [Nat.mod_eq_of_lt (by omega), QRV.Lemmas.GF.exp_eq_pow2 i (by omega)]
  exact hz i hi

/-- the full completeness statement (Sugiyama): any word within floor(n/2) of a codeword of length
≤ 255 is restored to exactly that codeword.  PROVED in `QRV/Props/C14Complete.lean` (`dec_complete`); the partial
result below (distance 0) is kept for reference. -/
def dec_complete_statement : Prop :=
  ∀ (n : Nat) (c r : List Nat), 2 ≤ n → n ≤ 68 → Bytes c → Bytes r → c.length = r.length → c.length ≤ 255 →
    Codeword n c → dist c r ≤ n / 2 → RS.decode r n = .ok c

theorem dec_complete_partial (n : Nat) (c r : List Nat) (hc : Codeword n c) (hr : dist c r = 0)
    (hl : c.length = r.length) : RS.decode r n = .ok c := by
  rw [← QRV.Lemmas.RS.eq_of_dist_zero c r hl hr]
  exact dec_clean c n hc

/-! non-vacuity: the Annex I codeword with two damaged bytes is restored (kernel evaluation) -/
example : RS.decode [0x10, 0x21, 0x0C, 0x56, 0x61, 0x80, 0xEC, 0x11, 0xEC, 0x11, 0xEC, 0x11, 0xEC, 0x11, 0xEC, 0x11,
    0xA5, 0x24, 0xD4, 0xC1, 0xED, 0x36, 0xC7, 0x87, 0x2C, 0x00] 10
  = .ok [0x10, 0x20, 0x0C, 0x56, 0x61, 0x80, 0xEC, 0x11, 0xEC, 0x11, 0xEC, 0x11, 0xEC, 0x11, 0xEC, 0x11,
    0xA5, 0x24, 0xD4, 0xC1, 0xED, 0x36, 0xC7, 0x87, 0x2C, 0x55] := by decide +kernel

end QRV.Props.C14
