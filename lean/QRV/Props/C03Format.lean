import QRV.Props.C03QR
import QRV.Props.C11Positions
import QRV.Lemmas.C03QRFormat
import QRV.Lemmas.C03QRFormatWords
/-
C03 — "... and the format information stays readable": the whole-symbol correction theorem of `Props/C03QR.lean`
with the hypothesis on the function modules weakened.  There `img'` has to carry ALL function modules of the clean
symbol, format information included.  Here the 30 format-information modules are set free: it is enough that the
FIRST copy read from `img'` is within two modules of the first copy of the clean symbol (the second copy may hold
anything), or that the first copy is at distance three or more from every code word while the second copy is within
two modules of the clean symbol's.  Everything else is as in `qr_corrects_rated_damage`.
-/
namespace QRV.Props.C03
open QRV QRV.Model QRV.Model.Sym QRV.Model.Bitmap QRV.Spec.Valid QRV.Spec.Bits QRV.Lemmas.RT QRV.Spec.BCH

/-- the first / second copy of the 15-bit format word as the standard places it in an n x n QR symbol -/
def fmtWord1 (img : Image) (n : Nat) : Nat := C11.wordAt (C18.px img) (fun i => (Spec.Symbol.QR.formatPos n i).1) 15
def fmtWord2 (img : Image) (n : Nat) : Nat := C11.wordAt (C18.px img) (fun i => (Spec.Symbol.QR.formatPos n i).2) 15

set_option linter.unusedVariables false in
/-- QR versions 1-40: rated damage of the data AND damaged format information that stays readable -/
theorem qr_corrects_rated_damage_and_format_damage (q : QRCode) (hv : QR.Valid q) (img : Image) (m : Nat)
    (henc : Model.QR.encodeToBitmap q = .ok img) (hm : m < 8)
    (hmask : Model.QR.decodeBitmap img = .ok { q with mask := (m : Int) })
    (cap : Gen.GCap) (hcap : (Gen.QR.capacityTable[q.version.toNat]?.getD [])[q.level.toNat]? = some cap)
    (buf : Bits.Buffer) (hbuf : Model.QR.encodeSegments q {} = .ok buf)
    (blks : List (List Nat × List Nat)) (hblks : splitBlocks cap.blocks buf.buf.toList = .ok blks)
    (cs : List (Int × Int))
    (hcs : walk (usedFn q.version.toNat) (16 + 4 * q.version) (fuelOf (16 + 4 * q.version)) (start (16 + 4 * q.version)) = some cs)
    (img' : Image) (hreg : C18.Regular img' (17 + 4 * q.version.toNat) (17 + 4 * q.version.toNat))
    (hfun : ∀ x y : Nat, x < 17 + 4 * q.version.toNat → y < 17 + 4 * q.version.toNat →
      usedFn q.version.toNat (x : Int) (y : Int) = true →
      Spec.Symbol.QR.formatBitAt (17 + 4 * q.version.toNat) x y = none → C18.px img' x y = C18.px img x y)
    (hfmt : hamming (fmtWord1 img' (17 + 4 * q.version.toNat)) (fmtWord1 img (17 + 4 * q.version.toNat)) ≤ 2 ∨
      ((∀ c ∈ Gen.QR.encodedFormat, hamming (fmtWord1 img' (17 + 4 * q.version.toNat)) c ≥ 3) ∧
        hamming (fmtWord2 img' (17 + 4 * q.version.toNat)) (fmtWord2 img (17 + 4 * q.version.toNat)) ≤ 2))
    (blks' : List (List Nat × List Nat))
    (hshape : blks'.map (fun b => (b.1.length, b.2.length)) = sizesOf cap.blocks)
    (hbytes : ∀ b ∈ blks', (∀ x ∈ b.1, x < 256) ∧ ∀ x ∈ b.2, x < 256)
    (hcarry : ∀ k (hk : k < 8 * cap.total) (hk' : k < cs.length),
      C18.px img' (cs[k]).1.toNat (cs[k]).2.toNat =
        ((unpack (ilvList blks'))[k]?.getD false ^^ Spec.Patterns.QR.maskCond m (cs[k]).2.toNat (cs[k]).1.toNat))
    (hdam : ∀ j (hj : j < blks.length) (hj' : j < blks'.length),
      C14.dist (blks[j].1 ++ blks[j].2) (blks'[j].1 ++ blks'[j].2) ≤ (ratedOf cap.blocks)[j]?.getD 0) :
    Model.QR.decodeBitmap img' = .ok { q with mask := (m : Int) } := by
  have _ := hfun  -- not needed: `decodeBitmap` reads no function module other than the format information
  obtain ⟨version, level, mask, segments⟩ := q
  obtain ⟨v, rfl⟩ := Int.eq_ofNat_of_zero_le (show 0 ≤ version by have := hv.version.1; simp only at this; omega)
  obtain ⟨l, rfl⟩ := Int.eq_ofNat_of_zero_le (show 0 ≤ level from hv.level.1)
  simp only [Int.toNat_natCast] at hcap hcs hreg hfmt
  have h1 : 1 ≤ v := by have := hv.version.1; simp only at this; omega
  have hl : l < 4 := by have := hv.level.2; simp only at this; omega
  -- both copies of the clean symbol are the code word of (level, mask)
  obtain ⟨c, hc, hw1, hw2⟩ := clean_format_words v l mask segments hv img m henc hmask
  unfold fmtWord1 fmtWord2 at hfmt
  rw [hw1, hw2] at hfmt
  -- so the format information of the damaged bitmap reads as (level, mask) (C11)
  have hdf := decodeFormat_of_words img' (17 + 4 * v) hreg (by omega) l m c hl hm hc hfmt
  exact corrects_rated_damage_fmt_nat v l mask segments hv img m henc hmask cap hcap buf hbuf blks hblks cs hcs
    img' hreg hdf blks' hshape hbytes hcarry hdam

set_option linter.unusedVariables false in
/-- QR versions 1-40, strongest form: NO hypothesis on the function modules at all.  The decoder takes the version from the
bitmap size and never looks at finder, separator, timing or alignment patterns, the dark module or the version
information: apart from the data modules only the format information matters, and that only up to readability -/
theorem qr_corrects_rated_damage_free_function_modules (q : QRCode) (hv : QR.Valid q) (img : Image) (m : Nat)
    (henc : Model.QR.encodeToBitmap q = .ok img) (hm : m < 8)
    (hmask : Model.QR.decodeBitmap img = .ok { q with mask := (m : Int) })
    (cap : Gen.GCap) (hcap : (Gen.QR.capacityTable[q.version.toNat]?.getD [])[q.level.toNat]? = some cap)
    (buf : Bits.Buffer) (hbuf : Model.QR.encodeSegments q {} = .ok buf)
    (blks : List (List Nat × List Nat)) (hblks : splitBlocks cap.blocks buf.buf.toList = .ok blks)
    (cs : List (Int × Int))
    (hcs : walk (usedFn q.version.toNat) (16 + 4 * q.version) (fuelOf (16 + 4 * q.version)) (start (16 + 4 * q.version)) = some cs)
    (img' : Image) (hreg : C18.Regular img' (17 + 4 * q.version.toNat) (17 + 4 * q.version.toNat))
    (hfmt : hamming (fmtWord1 img' (17 + 4 * q.version.toNat)) (fmtWord1 img (17 + 4 * q.version.toNat)) ≤ 2 ∨
      ((∀ c ∈ Gen.QR.encodedFormat, hamming (fmtWord1 img' (17 + 4 * q.version.toNat)) c ≥ 3) ∧
        hamming (fmtWord2 img' (17 + 4 * q.version.toNat)) (fmtWord2 img (17 + 4 * q.version.toNat)) ≤ 2))
    (blks' : List (List Nat × List Nat))
    (hshape : blks'.map (fun b => (b.1.length, b.2.length)) = sizesOf cap.blocks)
    (hbytes : ∀ b ∈ blks', (∀ x ∈ b.1, x < 256) ∧ ∀ x ∈ b.2, x < 256)
    (hcarry : ∀ k (hk : k < 8 * cap.total) (hk' : k < cs.length),
      C18.px img' (cs[k]).1.toNat (cs[k]).2.toNat =
        ((unpack (ilvList blks'))[k]?.getD false ^^ Spec.Patterns.QR.maskCond m (cs[k]).2.toNat (cs[k]).1.toNat))
    (hdam : ∀ j (hj : j < blks.length) (hj' : j < blks'.length),
      C14.dist (blks[j].1 ++ blks[j].2) (blks'[j].1 ++ blks'[j].2) ≤ (ratedOf cap.blocks)[j]?.getD 0) :
    Model.QR.decodeBitmap img' = .ok { q with mask := (m : Int) } := by
  obtain ⟨version, level, mask, segments⟩ := q
  obtain ⟨v, rfl⟩ := Int.eq_ofNat_of_zero_le (show 0 ≤ version by have := hv.version.1; simp only at this; omega)
  obtain ⟨l, rfl⟩ := Int.eq_ofNat_of_zero_le (show 0 ≤ level from hv.level.1)
  simp only [Int.toNat_natCast] at hcap hcs hreg hfmt
  have h1 : 1 ≤ v := by have := hv.version.1; simp only at this; omega
  have hl : l < 4 := by have := hv.level.2; simp only at this; omega
  -- both copies of the clean symbol are the code word of (level, mask)
  obtain ⟨c, hc, hw1, hw2⟩ := clean_format_words v l mask segments hv img m henc hmask
  unfold fmtWord1 fmtWord2 at hfmt
  rw [hw1, hw2] at hfmt
  -- so the format information of the damaged bitmap reads as (level, mask) (C11)
  have hdf := decodeFormat_of_words img' (17 + 4 * v) hreg (by omega) l m c hl hm hc hfmt
  exact corrects_rated_damage_fmt_nat v l mask segments hv img m henc hmask cap hcap buf hbuf blks hblks cs hcs
    img' hreg hdf blks' hshape hbytes hcarry hdam


/-! ## non-vacuity -/

/-- for every valid description the hypotheses of `qr_corrects_rated_damage_and_format_damage` are jointly
satisfiable with zero damage: `img' = img`, `blks' = blks`; the first copy of the format information is at distance
0 from itself -/
theorem format_hypotheses_satisfiable (q : QRCode) (hv : QR.Valid q) :
    ∃ (img : Image) (m : Nat) (cap : Gen.GCap) (buf : Bits.Buffer) (blks : List (List Nat × List Nat)) (cs : List (Int × Int)), Model.QR.encodeToBitmap q = .ok img ∧ m < 8 ∧
      Model.QR.decodeBitmap img = .ok { q with mask := (m : Int) } ∧
      (Gen.QR.capacityTable[q.version.toNat]?.getD [])[q.level.toNat]? = some cap ∧
      Model.QR.encodeSegments q {} = .ok buf ∧ splitBlocks cap.blocks buf.buf.toList = .ok blks ∧
      walk (usedFn q.version.toNat) (16 + 4 * q.version) (fuelOf (16 + 4 * q.version)) (start (16 + 4 * q.version)) = some cs ∧
      C18.Regular img (17 + 4 * q.version.toNat) (17 + 4 * q.version.toNat) ∧
      (∀ x y : Nat, x < 17 + 4 * q.version.toNat → y < 17 + 4 * q.version.toNat →
        usedFn q.version.toNat (x : Int) (y : Int) = true →
        Spec.Symbol.QR.formatBitAt (17 + 4 * q.version.toNat) x y = none → C18.px img x y = C18.px img x y) ∧
      (hamming (fmtWord1 img (17 + 4 * q.version.toNat)) (fmtWord1 img (17 + 4 * q.version.toNat)) ≤ 2 ∨
        ((∀ c ∈ Gen.QR.encodedFormat, hamming (fmtWord1 img (17 + 4 * q.version.toNat)) c ≥ 3) ∧
          hamming (fmtWord2 img (17 + 4 * q.version.toNat)) (fmtWord2 img (17 + 4 * q.version.toNat)) ≤ 2)) ∧
      blks.map (fun b => (b.1.length, b.2.length)) = sizesOf cap.blocks ∧
      (∀ b ∈ blks, (∀ x ∈ b.1, x < 256) ∧ ∀ x ∈ b.2, x < 256) ∧
      (∀ k (_ : k < 8 * cap.total) (hk' : k < cs.length),
        C18.px img (cs[k]).1.toNat (cs[k]).2.toNat =
          ((unpack (ilvList blks))[k]?.getD false ^^ Spec.Patterns.QR.maskCond m (cs[k]).2.toNat (cs[k]).1.toNat)) ∧
      (∀ j (hj : j < blks.length), C14.dist (blks[j].1 ++ blks[j].2) (blks[j].1 ++ blks[j].2) = 0) := by
  obtain ⟨img, m, cap, buf, blks, cs, henc, hm, hmask, hcap, hbuf, hblks, hcs, hreg, hshape, hbytes, hcarry, hzero⟩ :=
    hypotheses_satisfiable q hv
  exact ⟨img, m, cap, buf, blks, cs, henc, hm, hmask, hcap, hbuf, hblks, hcs, hreg, fun _ _ _ _ _ _ => rfl,
    Or.inl (by rw [hamming_self]; omega), hshape, hbytes, hcarry, hzero⟩

/-- the theorem applied to that instance (its conclusion then restates `hmask`; the point is that all hypotheses
hold together) -/
example (q : QRCode) (hv : QR.Valid q) :
    ∃ (img : Image) (m : Nat), Model.QR.encodeToBitmap q = .ok img ∧ Model.QR.decodeBitmap img = .ok { q with mask := (m : Int) } := by
  obtain ⟨img, m, cap, buf, blks, cs, henc, hm, hmask, hcap, hbuf, hblks, hcs, hreg, hfun, hfmt, hshape, hbytes, hcarry, hzero⟩ :=
    format_hypotheses_satisfiable q hv
  exact ⟨img, m, henc, qr_corrects_rated_damage_and_format_damage q hv img m henc hm hmask cap hcap buf hbuf blks hblks cs hcs
    img hreg hfun hfmt blks hshape hbytes hcarry
    (fun j hj _ => by rw [hzero j hj]; exact Nat.zero_le _)⟩

/-- the fallback branch of `hfmt` is not vacuous either: an all-light first copy (the word 0) is three or more
modules from every code word (kernel evaluation over the regenerated table) -/
example : ∀ c ∈ Gen.QR.encodedFormat, hamming 0 c ≥ 3 := by
  have h : Gen.QR.encodedFormat.all (fun c => decide (hamming 0 c ≥ 3)) = true := by decide +kernel
  intro c hc
  simpa using List.all_eq_true.mp h c hc

end QRV.Props.C03
