import QRV.Props.C13
import QRV.Props.C14Complete
/-
C13, uniqueness: "the parity bytes produced are THE remainder of message·x^n divided by g_n".

`C13.parity_is_codeword` shows that message ++ parity has the n roots α^0 … α^(n-1) of g_n.  Here:
for every block of at most 255 bytes (every block a QR, Micro QR or rMQR symbol contains) the
parity is the ONLY n-byte tail with that property — so the emitted bytes are determined by the
stated remainder and by nothing else.  The algebra is the minimum distance n + 1 of the code
(`C14.code_min_distance`, Vandermonde argument over a Mathlib `Field` instance of the model's
GF(256)): two tails for the same message differ in at most n positions.
-/
namespace QRV.Props.C13
open QRV QRV.Model QRV.Model.GF QRV.Model.RS QRV.Spec.GF QRV.Lemmas.GF

private theorem dist_same_prefix (m p p' : List Nat) (hl : p.length = p'.length) :
    QRV.Props.C14.dist (m ++ p) (m ++ p') ≤ p.length := by
  unfold QRV.Props.C14.dist
  rw [List.zip_append rfl, List.filter_append, List.length_append]
  have h0 : ((m.zip m).filter fun q => q.1 != q.2) = [] := by
    rw [List.filter_eq_nil_iff]
    intro q hq
    have := List.of_mem_zip hq
    induction m with
    | nil => simp at hq
    | cons x m ih =>
      rw [List.zip_cons_cons, List.mem_cons] at hq
      rcases hq with rfl | hq
      · simp
      · exact ih hq (List.of_mem_zip hq)
  rw [h0]
  have h1 := List.length_filter_le (fun q : Nat × Nat => q.1 != q.2) (p.zip p')
  rw [List.length_zip, ← hl, Nat.min_self] at h1
  simpa using h1

private theorem root_eq (n i : Nat) (h68 : n ≤ 68) (hi : i < n) : expT (i % 255) = pow2 i := by
  rw [Nat.mod_eq_of_lt (by omega)]
  exact exp_eq_pow2 i (by omega)

/-- the parity is the unique n-byte tail that makes message ++ tail vanish at α^0 … α^(n-1)
(blocks of at most 255 bytes) -/
theorem parity_unique (n : Nat) (h2 : 2 ≤ n) (h68 : n ≤ 68) (msg : List Nat) (hm : ∀ b ∈ msg, b < 256)
    (hL : msg.length + n ≤ 255) (par par' : List Nat) (hpar : RS.parity n msg = .ok par)
    (hl' : par'.length = n) (hb' : ∀ b ∈ par', b < 256)
    (hz' : ∀ i, i < n → Poly.eval (msg ++ par') (pow2 i) = 0) : par' = par := by
  obtain ⟨par0, h0, hl, hb, hz⟩ := parity_is_codeword n h2 h68 msg hm
  rw [hpar] at h0
  cases h0
  apply Classical.byContradiction
  intro hne
  have hne' : msg ++ par ≠ msg ++ par' := fun h => hne (List.append_cancel_left h).symm
  have hA : QRV.Props.C14.Bytes (msg ++ par) := by
    intro b hb0; rcases List.mem_append.mp hb0 with h | h
    · exact hm b h
    · exact hb b h
  have hB : QRV.Props.C14.Bytes (msg ++ par') := by
    intro b hb0; rcases List.mem_append.mp hb0 with h | h
    · exact hm b h
    · exact hb' b h
  have hcA : QRV.Props.C14.Codeword n (msg ++ par) := fun i hi => by
    rw [root_eq n i h68 hi]; exact hz i hi
  have hcB : QRV.Props.C14.Codeword n (msg ++ par') := fun i hi => by
    rw [root_eq n i h68 hi]; exact hz' i hi
  have hd := QRV.Props.C14.code_min_distance n (msg ++ par) (msg ++ par') (by omega) hA hB
    (by simp [hl, hl']) (by simp [hl]; omega) hcA hcB hne'
  have := dist_same_prefix msg par par' (by omega)
  omega

/-! non-vacuity: the Annex I block again; its parity is the only 10-byte tail with the ten roots -/
example : RS.parity 10 [0x10, 0x20, 0x0C, 0x56, 0x61, 0x80, 0xEC, 0x11, 0xEC, 0x11, 0xEC, 0x11, 0xEC, 0x11, 0xEC, 0x11]
    = .ok [0xA5, 0x24, 0xD4, 0xC1, 0xED, 0x36, 0xC7, 0x87, 0x2C, 0x55] ∧ 16 + 10 ≤ 255 := by decide +kernel

/-- encoder and decoder meet: what the coder emits (message ++ parity, blocks of at most 255 bytes)
is restored exactly by `reedsolomon.Decode` from every received word with at most floor(n/2)
damaged bytes — the RS-level round trip on which C01 and C03 rest, here stated with the encoder
model of C13 on one side and the decoder model of C14 on the other -/
theorem encode_damage_decode (n : Nat) (h2 : 2 ≤ n) (h68 : n ≤ 68) (msg : List Nat) (hm : ∀ b ∈ msg, b < 256)
    (hL : msg.length + n ≤ 255) (par r : List Nat) (hpar : RS.parity n msg = .ok par)
    (hr : ∀ b ∈ r, b < 256) (hlen : r.length = msg.length + n)
    (hd : QRV.Props.C14.dist (msg ++ par) r ≤ n / 2) : RS.decode r n = .ok (msg ++ par) := by
  obtain ⟨par0, h0, hl, hb, hz⟩ := parity_is_codeword n h2 h68 msg hm
  rw [hpar] at h0
  cases h0
  have hA : QRV.Props.C14.Bytes (msg ++ par) := by
    intro b hb0; rcases List.mem_append.mp hb0 with h | h
    · exact hm b h
    · exact hb b h
  have hcA : QRV.Props.C14.Codeword n (msg ++ par) := fun i hi => by
    rw [root_eq n i h68 hi]; exact hz i hi
  exact QRV.Props.C14.dec_complete n (msg ++ par) r h2 h68 hA hr (by simp [hl, hlen]) (by simp [hl]; omega) hcA hd

/-! non-vacuity: Annex I block, two damaged bytes (positions 1 and 25), within floor(10/2) -/
example : QRV.Props.C14.dist
    ([0x10, 0x20, 0x0C, 0x56, 0x61, 0x80, 0xEC, 0x11, 0xEC, 0x11, 0xEC, 0x11, 0xEC, 0x11, 0xEC, 0x11] ++
      [0xA5, 0x24, 0xD4, 0xC1, 0xED, 0x36, 0xC7, 0x87, 0x2C, 0x55])
    [0x10, 0x21, 0x0C, 0x56, 0x61, 0x80, 0xEC, 0x11, 0xEC, 0x11, 0xEC, 0x11, 0xEC, 0x11, 0xEC, 0x11,
      0xA5, 0x24, 0xD4, 0xC1, 0xED, 0x36, 0xC7, 0x87, 0x2C, 0x00] ≤ 10 / 2 := by decide +kernel

end QRV.Props.C13
