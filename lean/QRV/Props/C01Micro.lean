import QRV.Props.C01
import QRV.Lemmas.MicroRTFinal
/-
C01 / C10 — Micro QR M1-M4: the round trip is the identity; automatic masking emits the symbol of
an explicit pattern chosen by `autoMask`.

Proved in full.  The proof lives in `QRV/Lemmas/MicroRT*.lean` (stream: `MicroRTStream`,
`MicroRTParse`; walk: `MicroRTDefs`, `MicroRTWalk`; kernel evaluation over the regenerated tables:
`MicroRTFin`; format information: `MicroRTFormat`; assembly: `MicroRTFinal`); its components are
restated below as theorems of their own.
-/
namespace QRV.Props.C01
open QRV QRV.Model QRV.Model.Sym QRV.Spec.Valid

/-- Micro QR M1-M4: every valid description with non-empty segments encodes, and the bitmap decodes
to the same version, level and segment list, and to the same mask whenever one was specified (with
automatic masking: to the mask that was chosen, which is in range).  Non-emptiness is needed here:
the decoder reads an empty numeric segment as the terminator and (M4) drops empty segments. -/
theorem roundtrip_Micro (q : QRCode) (hv : Micro.Valid q) (hne : NonEmptySegments q) :
    ∃ img m, Model.Micro.encodeToBitmap q = .ok img ∧ (0 ≤ q.mask → m = q.mask) ∧ 0 ≤ m ∧ m ≤ 3 ∧
      Model.Micro.decodeBitmap img = .ok { q with mask := m } :=
  QRV.Lemmas.MRT.roundtrip_core q hv hne

/-- every valid description is accepted, empty segments or not -/
theorem micro_valid_accepted (q : QRCode) (hv : Micro.Valid q) :
    ∃ img, Model.Micro.encodeToBitmap q = .ok img :=
  QRV.Lemmas.MRT.accepted_core q hv

/-- Micro QR, automatic masking: the emitted symbol is the one emitted for the explicit pattern `m`
that `autoMask` returns on the symbol before masking (`sym`: codewords placed on the base image) -/
theorem micro_auto_is_explicit (q : QRCode) (hv : Micro.Valid q) (hauto : q.mask = -1) :
    ∃ (img used base sym : Bitmap.Image) (buf : Bits.Buffer) (cap : Gen.GCap) (m : Int),
      Model.Micro.encodeToBitmap q = .ok img ∧ 0 ≤ m ∧ m ≤ 3 ∧
      Model.Micro.encodeToBitmap { q with mask := m } = .ok img ∧
      imgAt Model.Micro.usedList q.version = .ok (some used) ∧
      imgAt Model.Micro.baseList q.version = .ok (some base) ∧
      capAt Gen.Micro.capacityTable q.version q.level = .ok cap ∧
      Model.Micro.encodeSegments q {} = .ok buf ∧
      Model.Micro.placeLoop used (8 + 2 * q.version) cap.dataBits
        ((8 + 2 * q.version + 3) * (8 + 2 * q.version + 3)).toNat
        { x := 8 + 2 * q.version, y := 8 + 2 * q.version, dy := -1 } buf base = .ok sym ∧
      Model.Micro.autoMask sym used = .ok m :=
  QRV.Lemmas.MRT.auto_core q hv hauto

/-! ## components -/

section components
open QRV.Model.Bits QRV.Model.Bitmap QRV.Spec.Bits QRV.Lemmas.MRT

/-- A. the codeword stream is the standard's: segments (mode indicator of `v - 1` bits, count, data),
terminator of 3/5/7/9 zero bits truncated to the room left, zero bits to the byte boundary, pad
half-codewords 1110 1100 0001 0001 up to the data bits, zero bits to the codeword boundary (M1/M3:
the last data codeword has four bits), then the Reed-Solomon codewords of those `cap.data` codewords -/
theorem stream_layout_Micro (v l : Nat) (hp : (v, l) ∈ pairs) (mask : Int) (segs : List Segment)
    (hs : ∀ s ∈ segs, SegOK v s)
    (hfit : (segs.map fun s => Spec.Valid.Micro.segBits s v).sum ≤ (capOf v l).dataBits) :
    ∃ data fbuf, Model.Micro.encodeSegments { version := v, level := l, mask := mask, segments := segs } {} = .ok fbuf ∧
      C16.Inv fbuf ∧ fbuf.wrote = 0 ∧ fbuf.offset = 0 ∧ fbuf.read = 0 ∧
      fbuf.buf.toList = data ++ QRV.Lemmas.RT.parityOf (capOf v l).correction data ∧
      data.length = (capOf v l).data ∧ (∀ x ∈ data, x < 256) ∧
      unpack data = segs.flatMap (segStream v) ++
        mtail (termLen v) (capOf v l).dataBits ((capOf v l).data * 8) (segs.flatMap (segStream v)).length := by
  obtain ⟨hv1, hv4, -, hcap, -, ⟨hD4, hDd, hd, h2, h68⟩, -⟩ := pair_facts v l hp
  exact stream_layout v l mask segs (capOf v l) hcap hv1 hv4 hD4 hDd hd h2 h68 hs hfit

/-- F. the segment loop parses such a stream back, whatever tail with `2 v + 1` leading zero bits
(as many as there are) follows; no segment may be empty -/
theorem segments_parse_Micro (v : Nat) (h1 : 1 ≤ v) (h4 : v ≤ 4) (segs : List Segment)
    (hs : ∀ s ∈ segs, SegOK v s) (hne : ∀ s ∈ segs, s.data ≠ []) (tail : List Bool)
    (ht : TailOK (termLen v) tail) (bytes : List Nat) (hb : ∀ x ∈ bytes, x < 256)
    (himg : unpack bytes = segs.flatMap (segStream v) ++ tail)
    (acc : Array Segment) (fuel : Nat) (hf : segs.length < fuel) :
    Model.Micro.segmentLoop (v : Int) fuel { buf := bytes.toArray } acc = .ok (acc.toList ++ segs) :=
  segments_parse v h1 h4 segs hs hne tail ht bytes hb himg acc fuel hf

/-- B. the placement loop writes bit k of the buffer at slot k of the walk (a module, or a skipped
bit: after `dataBits` bits the loop moves to the next byte boundary) -/
theorem placeLoop_is_slots_Micro (used : Image) (f : Int → Int → Bool) (hf : ∀ x y, used.binaryAt x y = .ok (f x y))
    (w : Int) (D fuel : Nat) (s : Walk) (rb : Nat) (sl : List (Option (Int × Int))) (buf : Buffer) (img : Image)
    (hw : mslots f w D fuel s rb = some sl) (hi : C16.Inv buf) (hr : buf.read < 8)
    (hlen : sl.length ≤ (C17.unread buf).length) :
    Model.Micro.placeLoop used w D fuel { x := s.x, y := s.y, dy := s.dy, readBits := rb } buf img =
      applySlots sl (C17.unread buf) img :=
  placeLoop_eq used f hf w D fuel s rb sl buf img hw hi hr hlen

/-- B. the reading loop appends the colours of the slots in order, zero for a skipped bit -/
theorem readLoop_is_slots_Micro (used img : Image) (f g : Int → Int → Bool)
    (hf : ∀ x y, used.binaryAt x y = .ok (f x y)) (hg : ∀ x y, img.binaryAt x y = .ok (g x y))
    (w : Int) (D fuel : Nat) (s : Walk) (rb : Nat) (sl : List (Option (Int × Int))) (buf : Buffer)
    (hw : mslots f w D fuel s rb = some sl) (hi : C16.Inv buf) (hrb : buf.len = rb) :
    ∃ buf', Model.Micro.readLoop used img w D fuel s buf = .ok buf' ∧ C16.Inv buf' ∧
      C16.abs buf' = C16.abs buf ++ sl.map (slotVal g) :=
  readLoop_eq used img f g hf hg w D fuel s rb sl buf hw hi hrb

/-- B. every (version, level) pair (kernel evaluation over the regenerated tables): the capacity
row, the symbol number, and the slot list: the model's fuel suffices, there are exactly as many
slots as codeword bits, no module occurs twice, every module is inside the symbol and not a
function module, and the skipped bits lie between `dataBits` and the codeword boundary -/
theorem pair_facts_Micro (v l : Nat) (hm : (v, l) ∈ pairs) :
    1 ≤ v ∧ v ≤ 4 ∧ l < 4 ∧
    capAt Gen.Micro.capacityTable (v : Int) (l : Int) = .ok (capOf v l) ∧
    (∃ f : Nat, Model.Micro.formatAt (v : Int) (l : Int) = .ok (f : Int) ∧ f < 8 ∧
      Gen.Micro.rawFormatTable[f]? = some ((v : Int), (l : Int))) ∧
    ((capOf v l).dataBits % 4 = 0 ∧ (capOf v l).dataBits ≤ (capOf v l).data * 8 ∧
      (capOf v l).data * 8 < (capOf v l).dataBits + 8 ∧ 2 ≤ (capOf v l).correction ∧ (capOf v l).correction ≤ 68) ∧
    Spec.Valid.Micro.dataBits v l = some (capOf v l).dataBits ∧
    ∃ sl, slotsOf v l = some sl ∧ sl.length = 8 * ((capOf v l).data + (capOf v l).correction) ∧
      (∀ (i j : Nat) (c : Int × Int), sl[i]? = some (some c) → sl[j]? = some (some c) → i = j) ∧
      ∀ k, (sl[k]? = some none → (capOf v l).dataBits ≤ k ∧ k < 8 * (capOf v l).data) ∧
        (∀ c, sl[k]? = some (some c) → 0 ≤ c.1 ∧ c.1 ≤ 8 + 2 * (v : Int) ∧ 0 ≤ c.2 ∧ c.2 ≤ 8 + 2 * (v : Int) ∧
          usedFn v c.1 c.2 = false) :=
  pair_facts v l hm

/-- D. the base, used bitmaps of a version are regular images, the used bitmap answers `usedFn`, and
the format information modules are function modules -/
theorem version_images_Micro (v : Nat) (h1 : 1 ≤ v) (h4 : v ≤ 4) :
    imgAt Model.Micro.baseList (v : Int) = .ok (some (Image.ofGen (baseGen v))) ∧
    imgAt Model.Micro.usedList (v : Int) = .ok (some (Image.ofGen (usedGen v))) ∧
    C18.Regular (Image.ofGen (baseGen v)) (9 + 2 * v) (9 + 2 * v) ∧
    C18.Regular (Image.ofGen (usedGen v)) (9 + 2 * v) (9 + 2 * v) ∧
    (∀ x y, (Image.ofGen (usedGen v)).binaryAt x y = .ok (usedFn v x y)) ∧
    ∀ i, i < 8 → usedFn v ((8 : Nat) : Int) ((i + 1 : Nat) : Int) = true ∧
      usedFn v ((i + 1 : Nat) : Int) ((8 : Nat) : Int) = true :=
  version_images v h1 h4

/-- C. the format information loop only writes function modules, and they hold the word -/
theorem format_write_Micro (v : Nat) (h1 : 1 ≤ v) (h4 : v ≤ 4) (img : Image)
    (hr : C18.Regular img (9 + 2 * v) (9 + 2 * v)) (enc : Nat) :
    ∃ img', placeFormatM img enc = .ok img' ∧ C18.Regular img' (9 + 2 * v) (9 + 2 * v) ∧
      (∀ x y : Nat, x < 9 + 2 * v → y < 9 + 2 * v → usedFn v (x : Int) (y : Int) = false →
        C18.px img' x y = C18.px img x y) ∧
      (∀ i : Nat, i < 8 → C18.px img' 8 (i + 1) = enc.testBit i ∧ C18.px img' (i + 1) 8 = enc.testBit (14 - i)) :=
  placeFormatM_spec v h1 h4 img hr enc

/-- C. reading the format information: modules holding table entry `4 f + m` give the (version,
level) pair of symbol number f and mask m -/
theorem format_read_Micro (img : Image) (n : Nat) (hr : C18.Regular img n n) (hn : 9 ≤ n) (f m c : Nat)
    (hf : f < 8) (hm : m < 4) (hc : Gen.Micro.encodedFormat[4 * f + m]? = some c) (vl : Int × Int)
    (hvl : Gen.Micro.rawFormatTable[f]? = some vl)
    (h1 : ∀ i : Nat, i < 8 → C18.px img 8 (i + 1) = c.testBit i)
    (h2 : ∀ i : Nat, i < 8 → C18.px img (i + 1) 8 = c.testBit (14 - i)) :
    readRawM img = .ok c ∧ Model.Micro.decodeFormat c = .ok (some (vl.1, vl.2, (m : Int))) :=
  decodeFormat_read img n hr hn f m c hf hm hc vl hvl h1 h2

/-- G. the mask choice (explicit, or the automatic loop whatever the scores are) yields a mask 0..3 -/
theorem mask_choice_Micro (v : Nat) (h4 : v ≤ 4) (mask : Int) (hm1 : -1 ≤ mask) (hm3 : mask ≤ 3) (img used : Image)
    (hr : C18.Regular img (9 + 2 * v) (9 + 2 * v)) (hru : C18.Regular used (9 + 2 * v) (9 + 2 * v)) :
    ∃ m : Nat, m < 4 ∧ chooseMaskM mask img used = .ok (m : Int) ∧ (0 ≤ mask → (m : Int) = mask) ∧
      (mask = -1 → Model.Micro.autoMask img used = .ok (m : Int)) :=
  chooseMaskM_spec v h4 mask hm1 hm3 img used hr hru

end components

end QRV.Props.C01
