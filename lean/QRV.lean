import QRV.GenTypes
import QRV.Gen.GF
import QRV.Gen.Kanji
import QRV.Gen.QR
import QRV.Gen.Micro
import QRV.Gen.RMQR
