-- Root of the QRV library: every property module (and through them every lemma, model and
-- specification module) so that `lake build QRV` checks the whole development.
import QRV.Audit
import QRV.Props.C01
import QRV.Props.C02
import QRV.Props.C03
import QRV.Props.C04
import QRV.Props.C05
import QRV.Props.C06
import QRV.Props.C07
import QRV.Props.C08
import QRV.Props.C09
import QRV.Props.C10
import QRV.Props.C11
import QRV.Props.C12
import QRV.Props.C13
import QRV.Props.C14
import QRV.Props.C14Complete
import QRV.Props.C15
import QRV.Props.C16
import QRV.Props.C17
import QRV.Props.C18
import QRV.Props.C03QR
import QRV.Props.C08Ext
import QRV.Props.C06RMQR
import QRV.Props.C06Micro
import QRV.Props.C04Ext
import QRV.Props.C05Ext
